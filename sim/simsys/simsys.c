// simsys: system-call fault seam for the simulated linker (LD_PRELOAD interposer).
//
// The simulated wild is a dynamically linked glibc program, so every file-system call it makes goes
// through a libc symbol that this library overrides. Each override counts calls on *tracked* files
// (relative paths, i.e. the link's inputs/outputs/side files in its working directory; simrt's own
// control files are absolute and never tracked) and consults a fault plan:
//
//   WILD_SIM_SYSFAULT="open#3=EMFILE;write#1=short:100;mmap#2=ENODEV"
//       <call>#<n>=<errno name> | short:<bytes>      n is the 1-based occurrence of that call kind
//   WILD_SIM_SYSFAULT_DIR=<abs dir>  also track absolute paths below this directory (except *.sim.*,
//                                  *.plan, *.syslog: the simulator's own files)
//   WILD_SIM_SYSFAULT_LOG=<path>   one line per fired fault ("fired <call> <n> <action> <detail>")
//                                  and per-kind totals at process exit ("count <pid> <call> <total>")
//
// Call kinds: open ftruncate mmap rename unlink write fchmod fsync statx close fork pipe, plus
// mmaprw (writable file mappings only: the output) and openw (opens for writing only: the output and
// side files), which are counted in addition to mmap/open so that a plan can aim at "the first
// writable mapping" without a profile run.
// Because exactly one simulated thread runs at a time (simrt's baton) the call sequence, and hence
// "the n-th call", is a deterministic function of the plan. Everything is done with raw system calls
// (no dlsym, no malloc) except fork, whose glibc wrapper is looked up lazily.
#define _GNU_SOURCE
#include <dlfcn.h>
#include <errno.h>
#include <fcntl.h>
#include <stdarg.h>
#include <stdint.h>
#include <stdlib.h>
#include <string.h>
#include <sys/mman.h>
#include <sys/stat.h>
#include <sys/syscall.h>
#include <sys/types.h>
#include <sys/uio.h>
#include <unistd.h>

enum { K_OPEN, K_FTRUNCATE, K_MMAP, K_RENAME, K_UNLINK, K_WRITE, K_FCHMOD, K_FSYNC, K_STATX,
       K_CLOSE, K_FORK, K_PIPE, K_MMAPRW, K_OPENW, K_N };
static const char *const KNAME[K_N] = {"open", "ftruncate", "mmap", "rename", "unlink", "write",
                                       "fchmod", "fsync", "statx", "close", "fork", "pipe",
                                       "mmaprw", "openw"};

struct rule { int kind; long n; int err; long shortn; int fired; };
#define MAX_RULES 16
static struct rule rules[MAX_RULES];
static int nrules;
static volatile long counts[K_N];
static int log_fd = -1;
static int active;
#define MAX_FD 4096
static unsigned char tracked[MAX_FD];
static const char *track_dir;   // WILD_SIM_SYSFAULT_DIR: absolute paths below it are tracked too
static size_t track_dir_len;

static const struct { const char *name; int val; } ERRNOS[] = {
    {"EMFILE", EMFILE}, {"ENFILE", ENFILE}, {"ENOSPC", ENOSPC}, {"EACCES", EACCES}, {"EIO", EIO},
    {"ETXTBSY", ETXTBSY}, {"ENOENT", ENOENT}, {"EINTR", EINTR}, {"ENOMEM", ENOMEM},
    {"ENODEV", ENODEV}, {"EBUSY", EBUSY}, {"EXDEV", EXDEV}, {"EPERM", EPERM}, {"ESTALE", ESTALE},
    {"EAGAIN", EAGAIN}, {"EINVAL", EINVAL}, {"EFBIG", EFBIG}, {"EDQUOT", EDQUOT}, {"EROFS", EROFS},
    {"EISDIR", EISDIR}, {"EEXIST", EEXIST},
};

static long raw(long nr, long a, long b, long c, long d, long e, long f) {
    return syscall(nr, a, b, c, d, e, f);
}

static void put(char **p, const char *s) { while (*s) *(*p)++ = *s++; }
static void putn(char **p, long v) {
    char tmp[24]; int i = 0;
    if (v < 0) { *(*p)++ = '-'; v = -v; }
    do { tmp[i++] = (char)('0' + v % 10); v /= 10; } while (v);
    while (i) *(*p)++ = tmp[--i];
}

static void logline(const char *a, long n1, const char *b, long n2, const char *c, const char *d) {
    if (log_fd < 0) return;
    char buf[512]; char *p = buf;
    put(&p, a); *p++ = ' '; putn(&p, n1); *p++ = ' '; put(&p, b); *p++ = ' '; putn(&p, n2);
    *p++ = ' '; put(&p, c); *p++ = ' ';
    for (int i = 0; d && d[i] && i < 200; i++) *p++ = d[i] == '\n' ? ' ' : d[i];
    *p++ = '\n';
    raw(SYS_write, log_fd, (long)buf, p - buf, 0, 0, 0);
}

static void at_exit_counts(void) {
    if (!active) return;
    long pid = raw(SYS_getpid, 0, 0, 0, 0, 0, 0);
    for (int k = 0; k < K_N; k++) logline("count", pid, KNAME[k], counts[k], "-", "-");
}

__attribute__((constructor)) static void init(void) {
    const char *spec = getenv("WILD_SIM_SYSFAULT");
    const char *lg = getenv("WILD_SIM_SYSFAULT_LOG");
    if (!spec && !lg) return;
    active = 1;
    track_dir = getenv("WILD_SIM_SYSFAULT_DIR");
    if (track_dir && track_dir[0] != '/') track_dir = NULL;
    track_dir_len = track_dir ? strlen(track_dir) : 0;
    if (lg) {
        long fd = raw(SYS_openat, AT_FDCWD, (long)lg, O_WRONLY | O_CREAT | O_APPEND | O_CLOEXEC, 0644, 0, 0);
        if (fd >= 0) {
            long hi = raw(SYS_fcntl, fd, F_DUPFD_CLOEXEC, 1000, 0, 0, 0);
            if (hi >= 0) { raw(SYS_close, fd, 0, 0, 0, 0, 0); fd = hi; }
            log_fd = (int)fd;
        }
    }
    atexit(at_exit_counts);
    if (!spec) return;
    const char *s = spec;
    while (*s && nrules < MAX_RULES) {
        const char *end = strchr(s, ';'); if (!end) end = s + strlen(s);
        const char *hash = memchr(s, '#', end - s);
        const char *eq = memchr(s, '=', end - s);
        if (hash && eq && hash < eq) {
            struct rule r; memset(&r, 0, sizeof r); r.kind = -1;
            for (int k = 0; k < K_N; k++)
                if ((size_t)(hash - s) == strlen(KNAME[k]) && !strncmp(s, KNAME[k], hash - s)) r.kind = k;
            r.n = strtol(hash + 1, NULL, 10);
            if (!strncmp(eq + 1, "short:", 6)) { r.err = 0; r.shortn = strtol(eq + 7, NULL, 10); }
            else {
                r.err = -1;
                for (size_t i = 0; i < sizeof ERRNOS / sizeof ERRNOS[0]; i++)
                    if ((size_t)(end - eq - 1) == strlen(ERRNOS[i].name) &&
                        !strncmp(eq + 1, ERRNOS[i].name, end - eq - 1)) r.err = ERRNOS[i].val;
            }
            if (r.kind >= 0 && r.n > 0 && r.err >= 0) rules[nrules++] = r;
            else logline("badrule", 0, "-", 0, "-", s);
        }
        s = *end ? end + 1 : end;
    }
}

static int is_tracked_path(const char *path) {
    if (!active || !path) return 0;
    if (path[0] != '/') return 1;
    if (track_dir && !strncmp(path, track_dir, track_dir_len)) {
        // ... except the simulator's own control files, which may live in the same directory
        size_t n = strlen(path);
        if (strstr(path, ".sim.")) return 0;
        if (n > 5 && !strcmp(path + n - 5, ".plan")) return 0;
        if (n > 7 && !strcmp(path + n - 7, ".syslog")) return 0;
        return 1;
    }
    return 0;
}
static int is_tracked_fd(int fd) { return active && fd >= 0 && fd < MAX_FD && tracked[fd]; }

// Counts one call of `kind`; returns the rule that fires on it, or NULL.
static struct rule *hit(int kind, const char *detail) {
    long n = __atomic_add_fetch(&counts[kind], 1, __ATOMIC_SEQ_CST);
    for (int i = 0; i < nrules; i++) {
        struct rule *r = &rules[i];
        if (r->kind == kind && r->n == n && !r->fired) {
            r->fired = 1;
            logline("fired", raw(SYS_getpid, 0, 0, 0, 0, 0, 0), KNAME[kind], n,
                    r->err ? "errno" : "short", detail);
            return r;
        }
    }
    return NULL;
}

// ---- open family --------------------------------------------------------------------------------
static int do_open(int dirfd, const char *path, int flags, mode_t mode) {
    int tr = is_tracked_path(path) && (dirfd == AT_FDCWD || path[0] != '/');
    if (tr) {
        struct rule *r = hit(K_OPEN, path);
        if (r && r->err) { errno = r->err; return -1; }
        if ((flags & O_ACCMODE) != O_RDONLY) {
            r = hit(K_OPENW, path);
            if (r && r->err) { errno = r->err; return -1; }
        }
    }
    int fd = (int)raw(SYS_openat, dirfd, (long)path, flags, mode, 0, 0);
    if (fd >= 0 && fd < MAX_FD) tracked[fd] = (unsigned char)tr;
    return fd;
}
#define OPEN_MODE() mode_t mode = 0; if (flags & (O_CREAT | O_TMPFILE)) { va_list ap; va_start(ap, flags); mode = va_arg(ap, mode_t); va_end(ap); }
int open(const char *path, int flags, ...) { OPEN_MODE(); return do_open(AT_FDCWD, path, flags, mode); }
int open64(const char *path, int flags, ...) { OPEN_MODE(); return do_open(AT_FDCWD, path, flags, mode); }
int openat(int dirfd, const char *path, int flags, ...) { OPEN_MODE(); return do_open(dirfd, path, flags, mode); }
int openat64(int dirfd, const char *path, int flags, ...) { OPEN_MODE(); return do_open(dirfd, path, flags, mode); }
int creat(const char *path, mode_t mode) { return do_open(AT_FDCWD, path, O_CREAT | O_WRONLY | O_TRUNC, mode); }
int creat64(const char *path, mode_t mode) { return do_open(AT_FDCWD, path, O_CREAT | O_WRONLY | O_TRUNC, mode); }

int close(int fd) {
    if (is_tracked_fd(fd)) {
        tracked[fd] = 0;
        struct rule *r = hit(K_CLOSE, "");
        // close() reporting EIO still releases the descriptor
        if (r && r->err) { raw(SYS_close, fd, 0, 0, 0, 0, 0); errno = r->err; return -1; }
    }
    return (int)raw(SYS_close, fd, 0, 0, 0, 0, 0);
}

// ---- write family -------------------------------------------------------------------------------
ssize_t write(int fd, const void *buf, size_t len) {
    if (is_tracked_fd(fd)) {
        struct rule *r = hit(K_WRITE, "");
        if (r && r->err) { errno = r->err; return -1; }
        if (r && (size_t)r->shortn < len) len = (size_t)r->shortn;
    }
    return raw(SYS_write, fd, (long)buf, (long)len, 0, 0, 0);
}
ssize_t pwrite(int fd, const void *buf, size_t len, off_t off) {
    if (is_tracked_fd(fd)) {
        struct rule *r = hit(K_WRITE, "");
        if (r && r->err) { errno = r->err; return -1; }
        if (r && (size_t)r->shortn < len) len = (size_t)r->shortn;
    }
    return raw(SYS_pwrite64, fd, (long)buf, (long)len, off, 0, 0);
}
ssize_t pwrite64(int fd, const void *buf, size_t len, off_t off) { return pwrite(fd, buf, len, off); }
ssize_t writev(int fd, const struct iovec *iov, int cnt) {
    if (is_tracked_fd(fd)) {
        struct rule *r = hit(K_WRITE, "");
        if (r && r->err) { errno = r->err; return -1; }
        if (r && cnt > 0) {
            size_t len = iov[0].iov_len;
            if ((size_t)r->shortn < len) len = (size_t)r->shortn;
            return raw(SYS_write, fd, (long)iov[0].iov_base, (long)len, 0, 0, 0);
        }
    }
    return raw(SYS_writev, fd, (long)iov, cnt, 0, 0, 0);
}

// ---- other fd calls -----------------------------------------------------------------------------
int ftruncate(int fd, off_t len) {
    if (is_tracked_fd(fd)) { struct rule *r = hit(K_FTRUNCATE, ""); if (r && r->err) { errno = r->err; return -1; } }
    return (int)raw(SYS_ftruncate, fd, len, 0, 0, 0, 0);
}
int ftruncate64(int fd, off_t len) { return ftruncate(fd, len); }
int fchmod(int fd, mode_t mode) {
    if (is_tracked_fd(fd)) { struct rule *r = hit(K_FCHMOD, ""); if (r && r->err) { errno = r->err; return -1; } }
    return (int)raw(SYS_fchmod, fd, mode, 0, 0, 0, 0);
}
int fsync(int fd) {
    if (is_tracked_fd(fd)) { struct rule *r = hit(K_FSYNC, ""); if (r && r->err) { errno = r->err; return -1; } }
    return (int)raw(SYS_fsync, fd, 0, 0, 0, 0, 0);
}
void *mmap(void *addr, size_t len, int prot, int flags, int fd, off_t off) {
    if (!(flags & MAP_ANONYMOUS) && is_tracked_fd(fd)) {
        struct rule *r = hit(K_MMAP, (prot & PROT_WRITE) ? "rw" : "ro");
        if (r && r->err) { errno = r->err; return MAP_FAILED; }
        if (prot & PROT_WRITE) {
            r = hit(K_MMAPRW, "rw");
            if (r && r->err) { errno = r->err; return MAP_FAILED; }
        }
    }
    long p = raw(SYS_mmap, (long)addr, (long)len, prot, flags, fd, off);
    return (void *)p;
}
void *mmap64(void *addr, size_t len, int prot, int flags, int fd, off_t off) {
    return mmap(addr, len, prot, flags, fd, off);
}
int statx(int dirfd, const char *restrict path_nn, int flags, unsigned int mask, struct statx *restrict st) {
    // Rust's std probes statx availability with a NULL path; glibc declares the parameter nonnull,
    // so read it through a volatile copy to keep the NULL test.
    const char *volatile pv = path_nn;
    const char *path = pv;
    int tr = (path && path[0]) ? (is_tracked_path(path) && dirfd == AT_FDCWD)
                               : (path != NULL && is_tracked_fd(dirfd));
    if (tr) { struct rule *r = hit(K_STATX, path); if (r && r->err) { errno = r->err; return -1; } }
    return (int)raw(SYS_statx, dirfd, (long)path, flags, mask, (long)st, 0);
}

// ---- path calls ---------------------------------------------------------------------------------
int rename(const char *from, const char *to) {
    if (is_tracked_path(from) || is_tracked_path(to)) {
        struct rule *r = hit(K_RENAME, from); if (r && r->err) { errno = r->err; return -1; }
    }
    return (int)raw(SYS_rename, (long)from, (long)to, 0, 0, 0, 0);
}
int renameat(int fd1, const char *from, int fd2, const char *to) {
    if (is_tracked_path(from) || is_tracked_path(to)) {
        struct rule *r = hit(K_RENAME, from); if (r && r->err) { errno = r->err; return -1; }
    }
    return (int)raw(SYS_renameat, fd1, (long)from, fd2, (long)to, 0, 0);
}
int unlink(const char *path) {
    if (is_tracked_path(path)) { struct rule *r = hit(K_UNLINK, path); if (r && r->err) { errno = r->err; return -1; } }
    return (int)raw(SYS_unlink, (long)path, 0, 0, 0, 0, 0);
}
int unlinkat(int dirfd, const char *path, int flags) {
    if (is_tracked_path(path) && dirfd == AT_FDCWD) {
        struct rule *r = hit(K_UNLINK, path); if (r && r->err) { errno = r->err; return -1; }
    }
    return (int)raw(SYS_unlinkat, dirfd, (long)path, flags, 0, 0, 0);
}

// ---- process calls ------------------------------------------------------------------------------
pid_t fork(void) {
    static pid_t (*real)(void);
    if (active) { struct rule *r = hit(K_FORK, ""); if (r && r->err) { errno = r->err; return -1; } }
    if (!real) real = (pid_t(*)(void))dlsym(RTLD_NEXT, "fork");
    return real();
}
int pipe(int fds[2]) {
    if (active) { struct rule *r = hit(K_PIPE, ""); if (r && r->err) { errno = r->err; return -1; } }
    return (int)raw(SYS_pipe2, (long)fds, 0, 0, 0, 0, 0);
}
int pipe2(int fds[2], int flags) {
    if (active) { struct rule *r = hit(K_PIPE, ""); if (r && r->err) { errno = r->err; return -1; } }
    return (int)raw(SYS_pipe2, (long)fds, flags, 0, 0, 0, 0);
}
