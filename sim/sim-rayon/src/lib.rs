//! sim-rayon — a model of the part of the rayon API that wild uses, running on the simrt baton
//! scheduler. See /verif/DESIGN.md §3.2 for the rules that keep this model inside the behaviours
//! real rayon can exhibit.

use std::any::Any;
use std::marker::PhantomData;
use std::panic::AssertUnwindSafe;
use std::panic::catch_unwind;
use std::panic::resume_unwind;
use std::sync::Mutex;

type Panic = Box<dyn Any + Send + 'static>;

fn ensure_pool() {
    if !simrt::pool_built() {
        let n = std::env::var("WILD_SIM_DEFAULT_THREADS")
            .ok()
            .and_then(|v| v.parse().ok())
            .unwrap_or(4);
        simrt::init_pool(n, false);
    }
}

/// Erases the lifetime of a task closure. Callers must guarantee that the closure has run (or been
/// dropped) before anything it borrows goes away; every user below waits on a latch for that.
unsafe fn erase<'a>(f: Box<dyn FnOnce() + Send + 'a>) -> Box<dyn FnOnce() + Send + 'static> {
    unsafe { std::mem::transmute(f) }
}

/// Runs `op` on a pool worker. If the caller is a worker, that's the caller. Otherwise the
/// operation is handed to the pool and the caller blocks without helping (rayon's
/// `in_worker_cold`).
fn in_worker<R: Send>(op: impl FnOnce() -> R + Send) -> R {
    ensure_pool();
    if simrt::is_worker() {
        return op();
    }
    let result: Mutex<Option<std::thread::Result<R>>> = Mutex::new(None);
    let latch = simrt::new_latch(1);
    {
        let result = &result;
        let task: Box<dyn FnOnce() + Send + '_> = Box::new(move || {
            let r = catch_unwind(AssertUnwindSafe(op));
            *result.lock().unwrap() = Some(r);
        });
        simrt::spawn_task("cold", Some(latch), unsafe { erase(task) });
    }
    simrt::wait_latch(latch, false);
    match result.into_inner().unwrap().unwrap() {
        Ok(r) => r,
        Err(p) => resume_unwind(p),
    }
}

pub fn current_num_threads() -> usize {
    ensure_pool();
    simrt::num_threads()
}

// ---------------------------------------------------------------------------------------------
// Thread pool builder
// ---------------------------------------------------------------------------------------------

#[derive(Default)]
pub struct ThreadPoolBuilder {
    num_threads: usize,
    use_current: bool,
}

#[derive(Debug)]
pub struct ThreadPoolBuildError;

impl std::fmt::Display for ThreadPoolBuildError {
    fn fmt(&self, f: &mut std::fmt::Formatter<'_>) -> std::fmt::Result {
        write!(f, "The global thread pool has already been initialized.")
    }
}

impl std::error::Error for ThreadPoolBuildError {}

impl ThreadPoolBuilder {
    pub fn new() -> Self {
        Self::default()
    }

    pub fn num_threads(mut self, n: usize) -> Self {
        self.num_threads = n;
        self
    }

    pub fn use_current_thread(mut self) -> Self {
        self.use_current = true;
        self
    }

    pub fn build_global(self) -> Result<(), ThreadPoolBuildError> {
        let n = if self.num_threads == 0 {
            std::env::var("WILD_SIM_DEFAULT_THREADS")
                .ok()
                .and_then(|v| v.parse().ok())
                .unwrap_or(4)
        } else {
            self.num_threads
        };
        // rayon: `use_current_thread()` registers the caller as one of the pool's `n` workers; with
        // num_threads left at 0 the pool still has the default number of threads (one per CPU).
        if simrt::init_pool(n, self.use_current) {
            Ok(())
        } else {
            Err(ThreadPoolBuildError)
        }
    }
}

// ---------------------------------------------------------------------------------------------
// spawn / join / scope
// ---------------------------------------------------------------------------------------------

/// Detached task. A panic in it aborts the process (rayon's default panic handler).
pub fn spawn<F>(f: F)
where
    F: FnOnce() + Send + 'static,
{
    ensure_pool();
    let task: Box<dyn FnOnce() + Send + 'static> = Box::new(move || {
        if catch_unwind(AssertUnwindSafe(f)).is_err() {
            eprintln!("sim-rayon: panic in detached spawn: aborting");
            simrt::flush();
            std::process::abort();
        }
    });
    simrt::spawn_task("detached", None, task);
}

pub fn join<A, B, RA, RB>(oper_a: A, oper_b: B) -> (RA, RB)
where
    A: FnOnce() -> RA + Send,
    B: FnOnce() -> RB + Send,
    RA: Send,
    RB: Send,
{
    in_worker(move || {
        let b_cell: Mutex<Option<B>> = Mutex::new(Some(oper_b));
        let b_result: Mutex<Option<std::thread::Result<RB>>> = Mutex::new(None);
        let latch = simrt::new_latch(1);
        let tid;
        {
            let b_cell = &b_cell;
            let b_result = &b_result;
            let task: Box<dyn FnOnce() + Send + '_> = Box::new(move || {
                let b = b_cell.lock().unwrap().take().unwrap();
                let r = catch_unwind(AssertUnwindSafe(b));
                *b_result.lock().unwrap() = Some(r);
            });
            tid = simrt::spawn_task("join_b", Some(latch), unsafe { erase(task) });
        }
        let ra = catch_unwind(AssertUnwindSafe(oper_a));
        let rb = if simrt::try_take_back(tid) {
            // Nobody stole it: run it here, as rayon does.
            let b = b_cell.lock().unwrap().take().unwrap();
            match &ra {
                Ok(_) => catch_unwind(AssertUnwindSafe(b)),
                Err(_) => {
                    // rayon drops B without running it if A panicked and B wasn't stolen.
                    drop(b);
                    Err(Box::new("join: a panicked") as Panic)
                }
            }
        } else {
            simrt::wait_latch(latch, true);
            b_result.lock().unwrap().take().unwrap()
        };
        match (ra, rb) {
            (Ok(a), Ok(b)) => (a, b),
            (Err(p), _) => resume_unwind(p),
            (_, Err(p)) => resume_unwind(p),
        }
    })
}

pub struct Scope<'scope> {
    latch: simrt::LatchId,
    panic: Mutex<Option<Panic>>,
    #[allow(clippy::type_complexity)]
    marker: PhantomData<Box<dyn FnOnce(&Scope<'scope>) + Send + Sync + 'scope>>,
}

struct ScopePtr<'scope>(*const Scope<'scope>);
unsafe impl Send for ScopePtr<'_> {}

impl<'scope> ScopePtr<'scope> {
    // Accessor so closures capture the whole wrapper (edition 2021 disjoint captures).
    fn get(&self) -> *const Scope<'scope> {
        self.0
    }
}

impl<'scope> Scope<'scope> {
    pub fn spawn<BODY>(&self, body: BODY)
    where
        BODY: FnOnce(&Scope<'scope>) + Send + 'scope,
    {
        simrt::latch_add(self.latch, 1);
        let ptr = ScopePtr(self as *const Scope<'scope>);
        let task: Box<dyn FnOnce() + Send + 'scope> = Box::new(move || {
            let scope = unsafe { &*ptr.get() };
            if let Err(p) = catch_unwind(AssertUnwindSafe(|| body(scope))) {
                let mut slot = scope.panic.lock().unwrap();
                if slot.is_none() {
                    *slot = Some(p);
                }
            }
        });
        simrt::spawn_task("scope_spawn", Some(self.latch), unsafe { erase(task) });
    }

    pub fn spawn_broadcast<BODY>(&self, body: BODY)
    where
        BODY: Fn(&Scope<'scope>, BroadcastContext) + Send + Sync + 'scope,
    {
        // Model: one task per pool thread. (Real rayon pins one to each thread; wild only uses this
        // for perfetto tracing, which the simulation never enables.)
        let n = current_num_threads();
        let body = std::sync::Arc::new(body);
        for index in 0..n {
            let body = body.clone();
            self.spawn(move |s| body(s, BroadcastContext { index, num_threads: n }));
        }
    }
}

pub struct BroadcastContext {
    index: usize,
    num_threads: usize,
}

impl BroadcastContext {
    pub fn index(&self) -> usize {
        self.index
    }
    pub fn num_threads(&self) -> usize {
        self.num_threads
    }
}

fn do_scope<'scope, OP, R>(op: OP, help: bool) -> R
where
    OP: FnOnce(&Scope<'scope>) -> R,
{
    let scope = Scope {
        latch: simrt::new_latch(1),
        panic: Mutex::new(None),
        marker: PhantomData,
    };
    let r = catch_unwind(AssertUnwindSafe(|| op(&scope)));
    simrt::latch_dec(scope.latch);
    simrt::wait_latch(scope.latch, help);
    match r {
        Err(p) => resume_unwind(p),
        Ok(r) => {
            if let Some(p) = scope.panic.lock().unwrap().take() {
                resume_unwind(p);
            }
            r
        }
    }
}

pub fn scope<'scope, OP, R>(op: OP) -> R
where
    OP: FnOnce(&Scope<'scope>) -> R + Send,
    R: Send,
{
    in_worker(move || do_scope(op, true))
}

pub fn in_place_scope<'scope, OP, R>(op: OP) -> R
where
    OP: FnOnce(&Scope<'scope>) -> R,
{
    ensure_pool();
    let help = simrt::is_worker();
    do_scope(op, help)
}

// ---------------------------------------------------------------------------------------------
// Parallel iterators
// ---------------------------------------------------------------------------------------------

/// Draws where to cut an iterator of the given length (None: unindexed → number of pullers).
fn draw_cuts(len: Option<usize>) -> Vec<usize> {
    let m = simrt::num_threads();
    match len {
        Some(len) => {
            if len <= 1 {
                return Vec::new();
            }
            let maxk = len.min(2 * m).max(1);
            let k = 1 + simrt::rand_below(maxk);
            let mut cuts: Vec<usize> = Vec::new();
            while cuts.len() < k - 1 {
                let c = 1 + simrt::rand_below(len - 1);
                if !cuts.contains(&c) {
                    cuts.push(c);
                }
            }
            cuts.sort_unstable();
            cuts
        }
        None => {
            let k = 1 + simrt::rand_below(2 * m);
            vec![0; k - 1]
        }
    }
}

/// Runs each piece as a task; returns the per-piece results in piece order.
fn run_pieces<S: Send, R: Send>(pieces: Vec<S>, f: &(impl Fn(usize, S) -> R + Sync)) -> Vec<R> {
    in_worker(move || {
        let n = pieces.len();
        let results: Vec<Mutex<Option<std::thread::Result<R>>>> =
            (0..n).map(|_| Mutex::new(None)).collect();
        let latch = simrt::new_latch(n);
        for (i, p) in pieces.into_iter().enumerate() {
            let results = &results;
            let task: Box<dyn FnOnce() + Send + '_> = Box::new(move || {
                let r = catch_unwind(AssertUnwindSafe(|| f(i, p)));
                *results[i].lock().unwrap() = Some(r);
            });
            simrt::spawn_task("piece", Some(latch), unsafe { erase(task) });
        }
        simrt::wait_latch(latch, true);
        let mut out = Vec::with_capacity(n);
        let mut panic = None;
        for r in results {
            match r.into_inner().unwrap().unwrap() {
                Ok(v) => out.push(v),
                Err(p) => {
                    if panic.is_none() {
                        panic = Some(p);
                    }
                }
            }
        }
        if let Some(p) = panic {
            resume_unwind(p);
        }
        out
    })
}

pub mod iter {
    use super::draw_cuts;
    use super::run_pieces;
    use std::sync::Arc;
    use std::sync::Mutex;
    use std::sync::atomic::AtomicBool;
    use std::sync::atomic::Ordering;

    /// Types usable as the result of `try_for_each` closures.
    pub trait TryUnit: Send {
        fn is_break(&self) -> bool;
        fn cont() -> Self;
    }

    impl<E: Send> TryUnit for Result<(), E> {
        fn is_break(&self) -> bool {
            self.is_err()
        }
        fn cont() -> Self {
            Ok(())
        }
    }

    impl TryUnit for Option<()> {
        fn is_break(&self) -> bool {
            self.is_none()
        }
        fn cont() -> Self {
            Some(())
        }
    }

    pub trait ParallelIterator: Sized + Send {
        type Item: Send;
        type Seq: Iterator<Item = Self::Item> + Send;

        /// Some(len) for indexed sources.
        fn opt_len(&self) -> Option<usize>;

        /// Cuts into `cuts.len() + 1` sequential pieces, in order.
        fn split(self, cuts: &[usize]) -> Vec<Self::Seq>;

        fn pieces(self) -> Vec<Self::Seq> {
            let cuts = draw_cuts(self.opt_len());
            self.split(&cuts)
        }

        fn map<F, R>(self, map_op: F) -> Map<Self, F>
        where
            F: Fn(Self::Item) -> R + Sync + Send,
            R: Send,
        {
            Map {
                base: self,
                f: Arc::new(map_op),
            }
        }

        fn for_each<OP>(self, op: OP)
        where
            OP: Fn(Self::Item) + Sync + Send,
        {
            run_pieces(self.pieces(), &|_, seq: Self::Seq| {
                for item in seq {
                    op(item);
                }
            });
        }

        fn try_for_each<OP, R>(self, op: OP) -> R
        where
            OP: Fn(Self::Item) -> R + Sync + Send,
            R: TryUnit,
        {
            self.try_for_each_init(|| (), |_, item| op(item))
        }

        fn try_for_each_init<OP, INIT, T, R>(self, init: INIT, op: OP) -> R
        where
            OP: Fn(&mut T, Self::Item) -> R + Sync + Send,
            INIT: Fn() -> T + Sync + Send,
            R: TryUnit,
        {
            let full = AtomicBool::new(false);
            let results = run_pieces(self.pieces(), &|_, seq: Self::Seq| {
                let mut state = init();
                for item in seq {
                    if full.load(Ordering::SeqCst) {
                        break;
                    }
                    let r = op(&mut state, item);
                    if r.is_break() {
                        full.store(true, Ordering::SeqCst);
                        return r;
                    }
                }
                R::cont()
            });
            // rayon: the leftmost break among those that actually happened.
            for r in results {
                if r.is_break() {
                    return r;
                }
            }
            R::cont()
        }

        fn reduce<OP, ID>(self, identity: ID, op: OP) -> Self::Item
        where
            OP: Fn(Self::Item, Self::Item) -> Self::Item + Sync + Send,
            ID: Fn() -> Self::Item + Sync + Send,
        {
            let mut parts = run_pieces(self.pieces(), &|_, seq: Self::Seq| {
                let mut acc = identity();
                for item in seq {
                    acc = op(acc, item);
                }
                acc
            });
            // Order-preserving reduction tree of random shape.
            while parts.len() > 1 {
                let i = simrt::rand_below(parts.len() - 1);
                let right = parts.remove(i + 1);
                let left = std::mem::replace(&mut parts[i], identity());
                parts[i] = op(left, right);
            }
            parts.pop().unwrap_or_else(identity)
        }

        fn collect<C>(self) -> C
        where
            C: FromParallelIterator<Self::Item>,
        {
            C::from_par_iter(self)
        }
    }

    pub trait IndexedParallelIterator: ParallelIterator {
        fn len(&self) -> usize;

        fn zip<Z>(self, zip_op: Z) -> Zip<Self, Z::Iter>
        where
            Z: IntoParallelIterator,
            Z::Iter: IndexedParallelIterator,
        {
            Zip {
                a: self,
                b: zip_op.into_par_iter(),
            }
        }

        fn enumerate(self) -> Enumerate<Self> {
            Enumerate { base: self }
        }
    }

    pub trait IntoParallelIterator {
        type Iter: ParallelIterator<Item = Self::Item>;
        type Item: Send;
        fn into_par_iter(self) -> Self::Iter;
    }

    impl<T: ParallelIterator> IntoParallelIterator for T {
        type Iter = T;
        type Item = T::Item;
        fn into_par_iter(self) -> T {
            self
        }
    }

    pub trait IntoParallelRefIterator<'data> {
        type Iter: ParallelIterator<Item = Self::Item>;
        type Item: Send + 'data;
        fn par_iter(&'data self) -> Self::Iter;
    }

    impl<'data, I: 'data + ?Sized> IntoParallelRefIterator<'data> for I
    where
        &'data I: IntoParallelIterator,
    {
        type Iter = <&'data I as IntoParallelIterator>::Iter;
        type Item = <&'data I as IntoParallelIterator>::Item;
        fn par_iter(&'data self) -> Self::Iter {
            self.into_par_iter()
        }
    }

    pub trait IntoParallelRefMutIterator<'data> {
        type Iter: ParallelIterator<Item = Self::Item>;
        type Item: Send + 'data;
        fn par_iter_mut(&'data mut self) -> Self::Iter;
    }

    impl<'data, I: 'data + ?Sized> IntoParallelRefMutIterator<'data> for I
    where
        &'data mut I: IntoParallelIterator,
    {
        type Iter = <&'data mut I as IntoParallelIterator>::Iter;
        type Item = <&'data mut I as IntoParallelIterator>::Item;
        fn par_iter_mut(&'data mut self) -> Self::Iter {
            self.into_par_iter()
        }
    }

    pub trait FromParallelIterator<T: Send> {
        fn from_par_iter<I>(par_iter: I) -> Self
        where
            I: IntoParallelIterator<Item = T>;
    }

    impl<T: Send> FromParallelIterator<T> for Vec<T> {
        fn from_par_iter<I>(par_iter: I) -> Self
        where
            I: IntoParallelIterator<Item = T>,
        {
            let it = par_iter.into_par_iter();
            let parts = run_pieces(it.pieces(), &|_, seq: <I::Iter as ParallelIterator>::Seq| {
                seq.collect::<Vec<T>>()
            });
            let mut out = Vec::with_capacity(parts.iter().map(Vec::len).sum());
            for p in parts {
                out.extend(p);
            }
            out
        }
    }

    /// rayon's `Result<C, E>: FromParallelIterator<Result<T, E>>`: the error that is kept is the
    /// first one to *arrive*; other pieces stop early once one has been seen.
    impl<T: Send, E: Send> FromParallelIterator<Result<T, E>> for Result<Vec<T>, E> {
        fn from_par_iter<I>(par_iter: I) -> Self
        where
            I: IntoParallelIterator<Item = Result<T, E>>,
        {
            let it = par_iter.into_par_iter();
            let saved: Mutex<Option<E>> = Mutex::new(None);
            let full = AtomicBool::new(false);
            let parts = run_pieces(it.pieces(), &|_, seq: <I::Iter as ParallelIterator>::Seq| {
                let mut v = Vec::new();
                for item in seq {
                    if full.load(Ordering::SeqCst) {
                        break;
                    }
                    match item {
                        Ok(x) => v.push(x),
                        Err(e) => {
                            let mut g = saved.lock().unwrap();
                            if g.is_none() {
                                *g = Some(e);
                            }
                            full.store(true, Ordering::SeqCst);
                            break;
                        }
                    }
                }
                v
            });
            match saved.into_inner().unwrap() {
                Some(e) => Err(e),
                None => {
                    let mut out = Vec::new();
                    for p in parts {
                        out.extend(p);
                    }
                    Ok(out)
                }
            }
        }
    }

    // ---- sources ----

    pub struct VecIter<T>(Vec<T>);

    impl<T: Send> ParallelIterator for VecIter<T> {
        type Item = T;
        type Seq = std::vec::IntoIter<T>;
        fn opt_len(&self) -> Option<usize> {
            Some(self.0.len())
        }
        fn split(mut self, cuts: &[usize]) -> Vec<Self::Seq> {
            let mut out = Vec::with_capacity(cuts.len() + 1);
            for &c in cuts.iter().rev() {
                let c = c.min(self.0.len());
                out.push(self.0.split_off(c).into_iter());
            }
            out.push(self.0.into_iter());
            out.reverse();
            out
        }
    }

    impl<T: Send> IndexedParallelIterator for VecIter<T> {
        fn len(&self) -> usize {
            self.0.len()
        }
    }

    impl<T: Send> IntoParallelIterator for Vec<T> {
        type Iter = VecIter<T>;
        type Item = T;
        fn into_par_iter(self) -> VecIter<T> {
            VecIter(self)
        }
    }

    pub struct SliceIter<'a, T>(&'a [T]);

    impl<'a, T: Sync + 'a> ParallelIterator for SliceIter<'a, T> {
        type Item = &'a T;
        type Seq = std::slice::Iter<'a, T>;
        fn opt_len(&self) -> Option<usize> {
            Some(self.0.len())
        }
        fn split(self, cuts: &[usize]) -> Vec<Self::Seq> {
            let mut out = Vec::with_capacity(cuts.len() + 1);
            let mut rest = self.0;
            let mut base = 0;
            for &c in cuts {
                let c = c.min(base + rest.len());
                let (a, b) = rest.split_at(c - base);
                out.push(a.iter());
                rest = b;
                base = c;
            }
            out.push(rest.iter());
            out
        }
    }

    impl<'a, T: Sync + 'a> IndexedParallelIterator for SliceIter<'a, T> {
        fn len(&self) -> usize {
            self.0.len()
        }
    }

    impl<'a, T: Sync + 'a> IntoParallelIterator for &'a [T] {
        type Iter = SliceIter<'a, T>;
        type Item = &'a T;
        fn into_par_iter(self) -> SliceIter<'a, T> {
            SliceIter(self)
        }
    }

    impl<'a, T: Sync + 'a> IntoParallelIterator for &'a Vec<T> {
        type Iter = SliceIter<'a, T>;
        type Item = &'a T;
        fn into_par_iter(self) -> SliceIter<'a, T> {
            SliceIter(self)
        }
    }

    pub struct SliceIterMut<'a, T>(&'a mut [T]);

    impl<'a, T: Send + 'a> ParallelIterator for SliceIterMut<'a, T> {
        type Item = &'a mut T;
        type Seq = std::slice::IterMut<'a, T>;
        fn opt_len(&self) -> Option<usize> {
            Some(self.0.len())
        }
        fn split(self, cuts: &[usize]) -> Vec<Self::Seq> {
            let mut out = Vec::with_capacity(cuts.len() + 1);
            let mut rest = self.0;
            let mut base = 0;
            for &c in cuts {
                let c = c.min(base + rest.len());
                let (a, b) = rest.split_at_mut(c - base);
                out.push(a.iter_mut());
                rest = b;
                base = c;
            }
            out.push(rest.iter_mut());
            out
        }
    }

    impl<'a, T: Send + 'a> IndexedParallelIterator for SliceIterMut<'a, T> {
        fn len(&self) -> usize {
            self.0.len()
        }
    }

    impl<'a, T: Send + 'a> IntoParallelIterator for &'a mut [T] {
        type Iter = SliceIterMut<'a, T>;
        type Item = &'a mut T;
        fn into_par_iter(self) -> SliceIterMut<'a, T> {
            SliceIterMut(self)
        }
    }

    impl<'a, T: Send + 'a> IntoParallelIterator for &'a mut Vec<T> {
        type Iter = SliceIterMut<'a, T>;
        type Item = &'a mut T;
        fn into_par_iter(self) -> SliceIterMut<'a, T> {
            SliceIterMut(self)
        }
    }

    pub struct Chunks<'a, T> {
        pub(crate) slice: &'a [T],
        pub(crate) size: usize,
    }

    impl<'a, T: Sync + 'a> ParallelIterator for Chunks<'a, T> {
        type Item = &'a [T];
        type Seq = std::slice::Chunks<'a, T>;
        fn opt_len(&self) -> Option<usize> {
            Some(self.slice.len().div_ceil(self.size))
        }
        fn split(self, cuts: &[usize]) -> Vec<Self::Seq> {
            let mut out = Vec::with_capacity(cuts.len() + 1);
            let mut rest = self.slice;
            let mut base = 0;
            for &c in cuts {
                let at = (c * self.size).min(base + rest.len());
                let (a, b) = rest.split_at(at - base);
                out.push(a.chunks(self.size));
                rest = b;
                base = at;
            }
            out.push(rest.chunks(self.size));
            out
        }
    }

    impl<'a, T: Sync + 'a> IndexedParallelIterator for Chunks<'a, T> {
        fn len(&self) -> usize {
            self.slice.len().div_ceil(self.size)
        }
    }

    pub struct ChunksMut<'a, T> {
        pub(crate) slice: &'a mut [T],
        pub(crate) size: usize,
    }

    impl<'a, T: Send + 'a> ParallelIterator for ChunksMut<'a, T> {
        type Item = &'a mut [T];
        type Seq = std::slice::ChunksMut<'a, T>;
        fn opt_len(&self) -> Option<usize> {
            Some(self.slice.len().div_ceil(self.size))
        }
        fn split(self, cuts: &[usize]) -> Vec<Self::Seq> {
            let mut out = Vec::with_capacity(cuts.len() + 1);
            let mut rest = self.slice;
            let mut base = 0;
            for &c in cuts {
                let at = (c * self.size).min(base + rest.len());
                let (a, b) = rest.split_at_mut(at - base);
                out.push(a.chunks_mut(self.size));
                rest = b;
                base = at;
            }
            out.push(rest.chunks_mut(self.size));
            out
        }
    }

    impl<'a, T: Send + 'a> IndexedParallelIterator for ChunksMut<'a, T> {
        fn len(&self) -> usize {
            self.slice.len().div_ceil(self.size)
        }
    }

    // ---- adaptors ----

    pub struct Map<I, F> {
        base: I,
        f: Arc<F>,
    }

    pub struct MapSeq<S, F> {
        inner: S,
        f: Arc<F>,
    }

    impl<S: Iterator, F, R> Iterator for MapSeq<S, F>
    where
        F: Fn(S::Item) -> R,
    {
        type Item = R;
        fn next(&mut self) -> Option<R> {
            self.inner.next().map(|x| (self.f)(x))
        }
    }

    impl<I, F, R> ParallelIterator for Map<I, F>
    where
        I: ParallelIterator,
        F: Fn(I::Item) -> R + Sync + Send,
        R: Send,
    {
        type Item = R;
        type Seq = MapSeq<I::Seq, F>;
        fn opt_len(&self) -> Option<usize> {
            self.base.opt_len()
        }
        fn split(self, cuts: &[usize]) -> Vec<Self::Seq> {
            let f = self.f;
            self.base
                .split(cuts)
                .into_iter()
                .map(|inner| MapSeq {
                    inner,
                    f: f.clone(),
                })
                .collect()
        }
    }

    impl<I, F, R> IndexedParallelIterator for Map<I, F>
    where
        I: IndexedParallelIterator,
        F: Fn(I::Item) -> R + Sync + Send,
        R: Send,
    {
        fn len(&self) -> usize {
            self.base.len()
        }
    }

    pub struct Enumerate<I> {
        base: I,
    }

    pub struct EnumSeq<S> {
        inner: S,
        next: usize,
    }

    impl<S: Iterator> Iterator for EnumSeq<S> {
        type Item = (usize, S::Item);
        fn next(&mut self) -> Option<Self::Item> {
            let x = self.inner.next()?;
            let i = self.next;
            self.next += 1;
            Some((i, x))
        }
    }

    impl<I: IndexedParallelIterator> ParallelIterator for Enumerate<I> {
        type Item = (usize, I::Item);
        type Seq = EnumSeq<I::Seq>;
        fn opt_len(&self) -> Option<usize> {
            Some(self.base.len())
        }
        fn split(self, cuts: &[usize]) -> Vec<Self::Seq> {
            let mut starts = vec![0usize];
            starts.extend_from_slice(cuts);
            self.base
                .split(cuts)
                .into_iter()
                .zip(starts)
                .map(|(inner, next)| EnumSeq { inner, next })
                .collect()
        }
    }

    impl<I: IndexedParallelIterator> IndexedParallelIterator for Enumerate<I> {
        fn len(&self) -> usize {
            self.base.len()
        }
    }

    pub struct Zip<A, B> {
        a: A,
        b: B,
    }

    impl<A: IndexedParallelIterator, B: IndexedParallelIterator> ParallelIterator for Zip<A, B> {
        type Item = (A::Item, B::Item);
        type Seq = std::iter::Zip<A::Seq, B::Seq>;
        fn opt_len(&self) -> Option<usize> {
            Some(self.a.len().min(self.b.len()))
        }
        fn split(self, cuts: &[usize]) -> Vec<Self::Seq> {
            self.a
                .split(cuts)
                .into_iter()
                .zip(self.b.split(cuts))
                .map(|(a, b)| a.zip(b))
                .collect()
        }
    }

    impl<A: IndexedParallelIterator, B: IndexedParallelIterator> IndexedParallelIterator
        for Zip<A, B>
    {
        fn len(&self) -> usize {
            self.a.len().min(self.b.len())
        }
    }

    // ---- par_bridge ----

    pub trait ParallelBridge: Sized {
        fn par_bridge(self) -> IterBridge<Self>;
    }

    impl<T: Iterator + Send> ParallelBridge for T
    where
        T::Item: Send,
    {
        fn par_bridge(self) -> IterBridge<T> {
            IterBridge { iter: self }
        }
    }

    pub struct IterBridge<I> {
        iter: I,
    }

    pub struct BridgePuller<I> {
        shared: Arc<Mutex<I>>,
    }

    impl<I: Iterator> Iterator for BridgePuller<I> {
        type Item = I::Item;
        fn next(&mut self) -> Option<I::Item> {
            simrt::sched_point("bridge_pull");
            self.shared.lock().unwrap().next()
        }
    }

    impl<I: Iterator + Send> ParallelIterator for IterBridge<I>
    where
        I::Item: Send,
    {
        type Item = I::Item;
        type Seq = BridgePuller<I>;
        fn opt_len(&self) -> Option<usize> {
            None
        }
        fn split(self, cuts: &[usize]) -> Vec<Self::Seq> {
            let shared = Arc::new(Mutex::new(self.iter));
            (0..=cuts.len())
                .map(|_| BridgePuller {
                    shared: shared.clone(),
                })
                .collect()
        }
    }
}

pub mod slice {
    use super::iter::Chunks;
    use super::iter::ChunksMut;

    pub trait ParallelSlice<T: Sync> {
        fn as_parallel_slice(&self) -> &[T];

        fn par_chunks(&self, chunk_size: usize) -> Chunks<'_, T> {
            assert!(chunk_size != 0, "chunk_size must not be zero");
            Chunks {
                slice: self.as_parallel_slice(),
                size: chunk_size,
            }
        }

        /// Like `par_chunks`, but the remainder (fewer than `chunk_size` elements) is left out.
        fn par_chunks_exact(&self, chunk_size: usize) -> Chunks<'_, T> {
            assert!(chunk_size != 0, "chunk_size must not be zero");
            let slice = self.as_parallel_slice();
            let len = slice.len() - slice.len() % chunk_size;
            Chunks {
                slice: &slice[..len],
                size: chunk_size,
            }
        }
    }

    impl<T: Sync> ParallelSlice<T> for [T] {
        fn as_parallel_slice(&self) -> &[T] {
            self
        }
    }

    pub trait ParallelSliceMut<T: Send> {
        fn as_parallel_slice_mut(&mut self) -> &mut [T];

        fn par_chunks_mut(&mut self, chunk_size: usize) -> ChunksMut<'_, T> {
            assert!(chunk_size != 0, "chunk_size must not be zero");
            ChunksMut {
                slice: self.as_parallel_slice_mut(),
                size: chunk_size,
            }
        }

        fn par_chunks_exact_mut(&mut self, chunk_size: usize) -> ChunksMut<'_, T> {
            assert!(chunk_size != 0, "chunk_size must not be zero");
            let slice = self.as_parallel_slice_mut();
            let len = slice.len() - slice.len() % chunk_size;
            ChunksMut {
                slice: &mut slice[..len],
                size: chunk_size,
            }
        }

        /// rayon's parallel sorts are deterministic functions of their input (stable merge sort /
        /// pattern-defeating quicksort); modelled by the sequential sorts.
        fn par_sort_by_key<K, F>(&mut self, f: F)
        where
            K: Ord,
            F: Fn(&T) -> K + Sync,
        {
            simrt::sched_point("par_sort");
            self.as_parallel_slice_mut().sort_by_key(f);
        }

        fn par_sort_unstable_by_key<K, F>(&mut self, f: F)
        where
            K: Ord,
            F: Fn(&T) -> K + Sync,
        {
            simrt::sched_point("par_sort");
            self.as_parallel_slice_mut().sort_unstable_by_key(f);
        }
    }

    impl<T: Send> ParallelSliceMut<T> for [T] {
        fn as_parallel_slice_mut(&mut self) -> &mut [T] {
            self
        }
    }
}

pub mod prelude {
    pub use super::iter::FromParallelIterator;
    pub use super::iter::IndexedParallelIterator;
    pub use super::iter::IntoParallelIterator;
    pub use super::iter::IntoParallelRefIterator;
    pub use super::iter::IntoParallelRefMutIterator;
    pub use super::iter::ParallelBridge;
    pub use super::iter::ParallelIterator;
    pub use super::slice::ParallelSlice;
    pub use super::slice::ParallelSliceMut;
}
