//! simrt — deterministic baton scheduler, PRNG, fault plan and event log for simulating the wild
//! linker. See /verif/DESIGN.md §3.1.
//!
//! Simulated threads are real OS threads, but exactly one of them (the baton holder, `current`)
//! runs at any time. The baton only moves inside calls into this crate, and every choice of who
//! runs next is one draw from a PRNG seeded from the plan (or the next entry of a recorded decision
//! list), so one seed is one exactly repeatable execution.

use std::cell::Cell;
use std::collections::HashMap;
use std::io::Write as _;
use std::sync::Arc;
use std::sync::Condvar;
use std::sync::Mutex;
use std::sync::MutexGuard;

pub type TaskFn = Box<dyn FnOnce() + Send + 'static>;

pub const EXIT_INVARIANT: i32 = 97;
pub const EXIT_STEP_BUDGET: i32 = 98;
pub const EXIT_DEADLOCK: i32 = 99;

#[derive(Clone, Copy, PartialEq, Eq, Debug)]
pub struct LatchId(usize);

#[derive(Clone, Copy, PartialEq, Eq, Debug)]
pub struct TaskId(u64);

struct Task {
    id: u64,
    kind: &'static str,
    latch: Option<usize>,
    f: TaskFn,
}

#[derive(Clone, Copy, PartialEq, Eq, Debug)]
enum St {
    Running,
    Runnable,
    Blocked,
    Finished,
}

#[derive(Clone, Copy, PartialEq, Eq, Debug)]
enum Wait {
    None,
    Latch { id: usize, help: bool },
    Event(&'static str),
    Addr(usize),
    Idle,
}

struct Th {
    cv: Arc<Condvar>,
    st: St,
    wait: Wait,
    worker: bool,
    prio: u64,
    stall_until: u64,
    /// Nesting depth of tasks being run on this thread's stack.
    depth: u32,
}

#[derive(Clone, Debug)]
enum Strategy {
    RoundRobin,
    /// Switch with probability p/1000 at each scheduling point.
    Random(u32),
    /// PCT-like: random thread priorities, `d` priority change points over `horizon` steps.
    Pct { change_points: Vec<u64> },
    Replay,
}

#[derive(Clone, Debug)]
enum Trigger {
    Step(u64),
    Site { site: String, n: u64 },
}

#[derive(Clone, Debug)]
enum FaultKind {
    Err,
    Panic,
    Abort,
    Alloc,
    Segv,
    Kill,
    Stall(u64),
    Cmd(String),
    Exit(i32),
}

#[derive(Clone, Debug)]
struct Fault {
    kind: FaultKind,
    trigger: Trigger,
    fired: bool,
}

struct Rng([u64; 4]);

impl Rng {
    fn new(seed: u64) -> Rng {
        let mut z = seed.wrapping_add(0x9E3779B97F4A7C15);
        let mut next = || {
            z = z.wrapping_add(0x9E3779B97F4A7C15);
            let mut x = z;
            x = (x ^ (x >> 30)).wrapping_mul(0xBF58476D1CE4E5B9);
            x = (x ^ (x >> 27)).wrapping_mul(0x94D049BB133111EB);
            x ^ (x >> 31)
        };
        Rng([next(), next(), next(), next()])
    }

    fn next(&mut self) -> u64 {
        let s = &mut self.0;
        let result = s[1].wrapping_mul(5).rotate_left(7).wrapping_mul(9);
        let t = s[1] << 17;
        s[2] ^= s[0];
        s[3] ^= s[1];
        s[1] ^= s[2];
        s[0] ^= s[3];
        s[2] ^= t;
        s[3] = s[3].rotate_left(45);
        result
    }

    fn below(&mut self, n: u64) -> u64 {
        if n <= 1 {
            0
        } else {
            self.next() % n
        }
    }
}

struct State {
    active: bool,
    rng: Rng,
    strategy: Strategy,
    step: u64,
    switches: u64,
    max_steps: u64,
    /// Pre-emption budget: once this many context switches have happened the random strategy
    /// stops pre-empting a thread that can continue (bounds the cost of huge workloads; the
    /// interesting interleavings need few pre-emptions).
    max_switches: u64,
    /// "Lazy workers": idle pool workers are only given the baton when no other thread can run.
    /// Models workers that are slow to wake up: detached tasks nobody waits for may be starved
    /// until the process exits (legal for rayon, which promises no fairness).
    lazy_workers: bool,
    threads: Vec<Th>,
    current: usize,
    bag: Vec<Task>,
    next_task: u64,
    tasks_run: u64,
    latches: Vec<usize>,
    events_set: Vec<&'static str>,
    pool_size: usize,
    use_current: bool,
    pool_built: bool,
    log_level: u32,
    log: Vec<u8>,
    decisions: Vec<u32>,
    replay: Vec<u32>,
    replay_pos: usize,
    trace_hash: u64,
    out_prefix: Option<String>,
    faults: Vec<Fault>,
    site_counts: HashMap<&'static str, u64>,
    faults_fired: Vec<String>,
    probes: HashMap<&'static str, u64>,
    rr_next: usize,
    flushed: bool,
    result: &'static str,
}

static SIM: Mutex<Option<State>> = Mutex::new(None);

thread_local! {
    static ME: Cell<usize> = const { Cell::new(usize::MAX) };
}

fn fnv(h: u64, x: u64) -> u64 {
    let mut h = h;
    for i in 0..8 {
        h ^= (x >> (i * 8)) & 0xff;
        h = h.wrapping_mul(0x100000001b3);
    }
    h
}

fn parse_trigger(s: &str) -> Option<Trigger> {
    if let Some(n) = s.strip_prefix("step=") {
        return Some(Trigger::Step(n.parse().ok()?));
    }
    if let Some(rest) = s.strip_prefix("site=") {
        let (site, n) = match rest.split_once(",n=") {
            Some((a, b)) => (a, b.parse().ok()?),
            None => (rest, 1),
        };
        return Some(Trigger::Site {
            site: site.to_owned(),
            n,
        });
    }
    None
}

fn parse_fault(v: &str) -> Option<Fault> {
    // <kind>@<trigger>[@<arg>]
    let mut parts = v.splitn(3, '@');
    let kind = parts.next()?;
    let trigger = parse_trigger(parts.next()?)?;
    let arg = parts.next();
    let kind = match kind {
        "err" => FaultKind::Err,
        "panic" => FaultKind::Panic,
        "abort" => FaultKind::Abort,
        "alloc" => FaultKind::Alloc,
        "segv" => FaultKind::Segv,
        "kill" => FaultKind::Kill,
        "stall" => FaultKind::Stall(arg?.parse().ok()?),
        "cmd" => FaultKind::Cmd(arg?.to_owned()),
        "exit" => FaultKind::Exit(arg?.parse().ok()?),
        _ => return None,
    };
    Some(Fault {
        kind,
        trigger,
        fired: false,
    })
}

fn harness_error(msg: &str) -> ! {
    eprintln!("simrt: harness error: {msg}");
    unsafe { libc::_exit(96) }
}

impl State {
    fn from_env() -> State {
        let mut st = State {
            active: true,
            rng: Rng::new(0),
            strategy: Strategy::RoundRobin,
            step: 0,
            switches: 0,
            max_steps: 5_000_000,
            max_switches: 60_000,
            lazy_workers: false,
            threads: Vec::new(),
            current: 0,
            bag: Vec::new(),
            next_task: 0,
            tasks_run: 0,
            latches: Vec::new(),
            events_set: Vec::new(),
            pool_size: 0,
            use_current: false,
            pool_built: false,
            log_level: 1,
            log: Vec::new(),
            decisions: Vec::new(),
            replay: Vec::new(),
            replay_pos: 0,
            trace_hash: 0xcbf29ce484222325,
            out_prefix: None,
            faults: Vec::new(),
            site_counts: HashMap::new(),
            faults_fired: Vec::new(),
            probes: HashMap::new(),
            rr_next: 0,
            flushed: false,
            result: "running",
        };
        let mut seed = 0u64;
        let mut strategy = "rr".to_owned();
        let mut pct_horizon = 2000u64;
        if let Ok(path) = std::env::var("WILD_SIM_PLAN") {
            let text = match std::fs::read_to_string(&path) {
                Ok(t) => t,
                Err(e) => harness_error(&format!("cannot read plan {path}: {e}")),
            };
            for line in text.lines() {
                let line = line.trim();
                if line.is_empty() || line.starts_with('#') {
                    continue;
                }
                let Some((k, v)) = line.split_once('=') else {
                    harness_error(&format!("bad plan line: {line}"));
                };
                match k {
                    "seed" => seed = v.parse().unwrap_or_else(|_| harness_error("bad seed")),
                    "strategy" => strategy = v.to_owned(),
                    "pct_horizon" => pct_horizon = v.parse().unwrap_or(2000),
                    "max_steps" => st.max_steps = v.parse().unwrap_or(5_000_000),
                    "max_switches" => st.max_switches = v.parse().unwrap_or(60_000),
                    "lazy_workers" => st.lazy_workers = v == "1",
                    "out" => st.out_prefix = Some(v.to_owned()),
                    "log_level" => st.log_level = v.parse().unwrap_or(1),
                    "decisions_in" => {
                        let t = std::fs::read_to_string(v)
                            .unwrap_or_else(|e| harness_error(&format!("decisions_in: {e}")));
                        st.replay = t
                            .split_whitespace()
                            .map(|x| x.parse().unwrap_or(0))
                            .collect();
                    }
                    "fault" => match parse_fault(v) {
                        Some(f) => st.faults.push(f),
                        None => harness_error(&format!("bad fault: {v}")),
                    },
                    _ => harness_error(&format!("unknown plan key: {k}")),
                }
            }
        }
        st.rng = Rng::new(seed);
        st.strategy = if strategy == "rr" {
            Strategy::RoundRobin
        } else if strategy == "replay" {
            Strategy::Replay
        } else if let Some(p) = strategy.strip_prefix("random:") {
            Strategy::Random(p.parse().unwrap_or(100))
        } else if let Some(d) = strategy.strip_prefix("pct:") {
            let d: u64 = d.parse().unwrap_or(3);
            let mut cps: Vec<u64> = (0..d).map(|_| 1 + st.rng.below(pct_horizon)).collect();
            cps.sort_unstable();
            Strategy::Pct { change_points: cps }
        } else {
            harness_error(&format!("unknown strategy {strategy}"));
        };
        st.log_line(0, "plan", seed, 0, 0);
        st
    }

    fn log_line(&mut self, tid: usize, kind: &str, a: u64, b: u64, c: u64) {
        if self.log_level == 0 {
            return;
        }
        let _ = writeln!(self.log, "{} {} {} {} {} {}", self.step, tid, kind, a, b, c);
    }

    fn new_thread(&mut self, worker: bool) -> usize {
        let prio = 1_000_000 + self.rng.below(1_000_000);
        self.threads.push(Th {
            cv: Arc::new(Condvar::new()),
            st: St::Blocked,
            wait: Wait::None,
            worker,
            prio,
            stall_until: 0,
            depth: 0,
        });
        self.threads.len() - 1
    }

    /// Draws (or replays) one decision in `0..n`.
    fn decide(&mut self, n: usize, draw: impl FnOnce(&mut State) -> usize) -> usize {
        let v = if matches!(self.strategy, Strategy::Replay) {
            let v = self.replay.get(self.replay_pos).copied().unwrap_or(0) as usize;
            self.replay_pos += 1;
            if n == 0 { 0 } else { v % n }
        } else {
            draw(self)
        };
        self.decisions.push(v as u32);
        self.trace_hash = fnv(self.trace_hash, v as u64 ^ ((n as u64) << 32));
        v
    }

    fn can_progress(&self, t: usize) -> bool {
        let th = &self.threads[t];
        match th.st {
            St::Finished => false,
            St::Running | St::Runnable => true,
            St::Blocked => match th.wait {
                Wait::None => false,
                Wait::Latch { id, help } => {
                    self.latches[id] == 0 || (help && th.worker && !self.bag.is_empty())
                }
                Wait::Event(k) => self.events_set.contains(&k),
                Wait::Addr(_) => false,
                Wait::Idle => !self.bag.is_empty(),
            },
        }
    }

    /// Candidates other than `me` that could make progress if given the baton, in thread order.
    fn candidates(&mut self, me: usize) -> Vec<usize> {
        let mut out: Vec<usize> = (0..self.threads.len())
            .filter(|&t| t != me && self.can_progress(t) && self.threads[t].stall_until <= self.step)
            .collect();
        if out.is_empty() {
            // Stalled threads must not produce a false deadlock.
            out = (0..self.threads.len())
                .filter(|&t| t != me && self.can_progress(t))
                .collect();
            for &t in &out {
                self.threads[t].stall_until = 0;
            }
        }
        out
    }

    /// Picks the next thread. `me_ok`: the current thread may continue.
    fn pick_next(&mut self, me: usize, me_may_continue: bool) -> Option<usize> {
        let me_ok = me_may_continue && self.threads[me].stall_until <= self.step;
        let mut cands = self.candidates(me);
        if self.lazy_workers {
            let busy: Vec<usize> = cands
                .iter()
                .copied()
                .filter(|&t| !(self.threads[t].st == St::Blocked && matches!(self.threads[t].wait, Wait::Idle)))
                .collect();
            if me_ok || !busy.is_empty() {
                cands = busy;
            }
        }
        if cands.is_empty() {
            return if me_may_continue { Some(me) } else { None };
        }
        // Decision encoding: list = [me (if me_ok)] ++ cands; index into it. 0 = continue when me_ok.
        let n = cands.len() + usize::from(me_ok);
        let idx = self.decide(n, |s| match &s.strategy {
            Strategy::RoundRobin => {
                if me_ok {
                    0
                } else {
                    s.rr_next = s.rr_next.wrapping_add(1);
                    s.rr_next % n
                }
            }
            Strategy::Random(p) => {
                let p = u64::from(*p);
                if me_ok && s.switches >= s.max_switches {
                    0
                } else if me_ok {
                    if s.rng.below(1000) < p {
                        1 + s.rng.below(cands.len() as u64) as usize
                    } else {
                        0
                    }
                } else {
                    s.rng.below(n as u64) as usize
                }
            }
            Strategy::Pct { .. } => {
                // Highest priority wins.
                let mut best = 0usize;
                let mut best_prio = 0u64;
                for i in 0..n {
                    let t = if me_ok {
                        if i == 0 { me } else { cands[i - 1] }
                    } else {
                        cands[i]
                    };
                    let p = s.threads[t].prio;
                    if p > best_prio {
                        best_prio = p;
                        best = i;
                    }
                }
                best
            }
            Strategy::Replay => unreachable!(),
        });
        Some(if me_ok {
            if idx == 0 { me } else { cands[idx - 1] }
        } else {
            cands[idx]
        })
    }

    fn pick_task(&mut self) -> usize {
        let n = self.bag.len();
        if self.lazy_workers {
            // Lazy workers also leave detached tasks (nobody waits for them) for last: a worker
            // takes one only when no scoped task is pending.
            let scoped: Vec<usize> = (0..n).filter(|&i| self.bag[i].latch.is_some()).collect();
            if !scoped.is_empty() && scoped.len() < n {
                let k = self.decide(scoped.len(), |s| match s.strategy {
                    Strategy::RoundRobin => 0,
                    _ => s.rng.below(scoped.len() as u64) as usize,
                });
                return scoped[k];
            }
        }
        self.decide(n, |s| match s.strategy {
            Strategy::RoundRobin => 0,
            _ => s.rng.below(n as u64) as usize,
        })
    }

    fn write_outputs(&mut self) {
        if self.flushed {
            return;
        }
        self.flushed = true;
        let Some(prefix) = self.out_prefix.clone() else {
            return;
        };
        let pid = std::process::id();
        let _ = std::fs::write(format!("{prefix}.events"), &self.log);
        let mut d = String::with_capacity(self.decisions.len() * 2);
        for v in &self.decisions {
            d.push_str(&v.to_string());
            d.push('\n');
        }
        let _ = std::fs::write(format!("{prefix}.decisions"), d);
        let mut s = String::new();
        s.push_str(&format!("pid={pid}\n"));
        s.push_str(&format!("result={}\n", self.result));
        s.push_str(&format!("steps={}\n", self.step));
        s.push_str(&format!("switches={}\n", self.switches));
        s.push_str(&format!("tasks_run={}\n", self.tasks_run));
        s.push_str(&format!("tasks_pending={}\n", self.bag.len()));
        s.push_str(&format!("threads={}\n", self.threads.len()));
        s.push_str(&format!("pool_size={}\n", self.pool_size));
        s.push_str(&format!("decisions={}\n", self.decisions.len()));
        s.push_str(&format!("trace_hash={:016x}\n", self.trace_hash));
        for f in &self.faults_fired {
            s.push_str(&format!("fault_fired={f}\n"));
        }
        let mut probes: Vec<_> = self.probes.iter().collect();
        probes.sort();
        for (k, v) in probes {
            s.push_str(&format!("probe.{k}={v}\n"));
        }
        let _ = std::fs::write(format!("{prefix}.summary"), s);
    }
}

extern "C" fn at_exit_flush() {
    // The exiting thread holds the baton, so nobody else holds the lock for long.
    if let Ok(mut g) = SIM.try_lock() {
        if let Some(s) = g.as_mut() {
            if s.result == "running" {
                s.result = "exit";
            }
            s.write_outputs();
        }
    }
}

fn lock() -> MutexGuard<'static, Option<State>> {
    match SIM.lock() {
        Ok(g) => g,
        Err(p) => p.into_inner(),
    }
}

/// Returns the calling thread's id, registering the first caller as thread 0 (the main thread).
/// Returns None for threads the simulator doesn't know (they are never scheduled by us).
fn enter(g: &mut MutexGuard<'static, Option<State>>) -> Option<usize> {
    if g.is_none() {
        let mut st = State::from_env();
        let t = st.new_thread(false);
        st.threads[t].st = St::Running;
        st.current = t;
        ME.with(|m| m.set(t));
        **g = Some(st);
        unsafe {
            libc::atexit(at_exit_flush);
        }
        return Some(t);
    }
    let me = ME.with(|m| m.get());
    if me == usize::MAX { None } else { Some(me) }
}

fn die(mut g: MutexGuard<'static, Option<State>>, result: &'static str, code: i32, msg: &str) -> ! {
    let s = g.as_mut().unwrap();
    s.result = result;
    let me = s.current;
    s.log_line(me, result, 0, 0, 0);
    // Describe thread states to help diagnosis.
    let mut desc = String::new();
    for (i, t) in s.threads.iter().enumerate() {
        desc.push_str(&format!(
            " t{i}:{:?}/{:?}{}",
            t.st,
            t.wait,
            if t.worker { "/w" } else { "" }
        ));
    }
    eprintln!(
        "simrt: {result}: {msg} step={} bag={} threads:{desc}",
        s.step,
        s.bag.len()
    );
    s.write_outputs();
    drop(g);
    unsafe { libc::_exit(code) }
}

/// Hands the baton to `next` and waits until it comes back to `me`.
fn switch_to(
    mut g: MutexGuard<'static, Option<State>>,
    me: usize,
    next: usize,
    site: &'static str,
) -> MutexGuard<'static, Option<State>> {
    if next == me {
        return g;
    }
    let cv;
    {
        let s = g.as_mut().unwrap();
        s.switches += 1;
        s.trace_hash = fnv(s.trace_hash, (me as u64) << 16 | next as u64);
        for b in site.bytes() {
            s.trace_hash = fnv(s.trace_hash, u64::from(b));
        }
        if s.log_level >= 2 {
            let kind = format!("switch:{site}");
            s.log_line(me, &kind, next as u64, 0, 0);
        }
        if s.threads[me].st == St::Running {
            s.threads[me].st = St::Runnable;
        }
        s.current = next;
        s.threads[next].cv.notify_one();
        cv = s.threads[me].cv.clone();
    }
    loop {
        g = match cv.wait(g) {
            Ok(g) => g,
            Err(p) => p.into_inner(),
        };
        if g.as_ref().unwrap().current == me {
            break;
        }
    }
    let s = g.as_mut().unwrap();
    if s.threads[me].st == St::Runnable {
        s.threads[me].st = St::Running;
    }
    g
}

fn fire_fault(
    mut g: MutexGuard<'static, Option<State>>,
    me: usize,
    idx: usize,
    site: &'static str,
) -> (MutexGuard<'static, Option<State>>, Option<String>) {
    let s = g.as_mut().unwrap();
    let kind = s.faults[idx].kind.clone();
    s.faults[idx].fired = true;
    let desc = format!("{kind:?}@step{}@{site}", s.step);
    s.faults_fired.push(desc.clone());
    s.log_line(me, "fault", idx as u64, 0, 0);
    match kind {
        FaultKind::Err => (g, Some(format!("simrt injected error at {site}"))),
        FaultKind::Stall(n) => {
            s.threads[me].stall_until = s.step + n;
            (g, None)
        }
        FaultKind::Cmd(cmd) => {
            drop(g);
            let status = std::process::Command::new("/bin/sh")
                .arg("-c")
                .arg(&cmd)
                .status();
            let mut g = lock();
            let s = g.as_mut().unwrap();
            let code = status.ok().and_then(|s| s.code()).unwrap_or(-1);
            s.log_line(me, "cmd_done", code as u64, 0, 0);
            (g, None)
        }
        FaultKind::Panic => {
            s.result = "injected_panic";
            drop(g);
            panic!("simrt injected panic at {site}");
        }
        FaultKind::Exit(code) => {
            s.result = "injected_exit";
            s.write_outputs();
            drop(g);
            unsafe { libc::_exit(code) }
        }
        FaultKind::Abort | FaultKind::Alloc | FaultKind::Segv | FaultKind::Kill => {
            s.result = "injected_crash";
            s.write_outputs();
            drop(g);
            unsafe {
                match kind {
                    FaultKind::Abort => libc::abort(),
                    FaultKind::Alloc => {
                        std::alloc::handle_alloc_error(std::alloc::Layout::from_size_align_unchecked(
                            1 << 40,
                            8,
                        ))
                    }
                    FaultKind::Segv => {
                        libc::signal(libc::SIGSEGV, libc::SIG_DFL);
                        libc::raise(libc::SIGSEGV);
                        libc::_exit(139)
                    }
                    _ => {
                        libc::kill(libc::getpid(), libc::SIGKILL);
                        libc::_exit(137)
                    }
                }
            }
        }
    }
}

/// Checks faults due at this step/site. Only `Err` faults return a message, and only when
/// `allow_err`.
fn check_faults(
    mut g: MutexGuard<'static, Option<State>>,
    me: usize,
    site: &'static str,
    allow_err: bool,
) -> (MutexGuard<'static, Option<State>>, Option<String>) {
    let s = g.as_mut().unwrap();
    if s.faults.is_empty() {
        return (g, None);
    }
    // Occurrences of a site are counted at its scheduling-point call; a `fault_err` call for the
    // same site (which always follows the `phase` call) sees the same count.
    let count = {
        let c = s.site_counts.entry(site).or_insert(0);
        if !allow_err || *c == 0 {
            *c += 1;
        }
        *c
    };
    let mut hit = None;
    for (i, f) in s.faults.iter().enumerate() {
        if f.fired {
            continue;
        }
        if matches!(f.kind, FaultKind::Err) && !allow_err {
            continue;
        }
        // An unwinding panic may only be injected where wild's own code could panic, never from
        // inside the rayon model's internals (real rayon doesn't panic in spawn/join/wait, and
        // unwinding out of them would free stack data that pending tasks still borrow).
        if matches!(f.kind, FaultKind::Panic) && is_internal_site(site) {
            continue;
        }
        let m = match &f.trigger {
            Trigger::Step(n) => s.step >= *n,
            Trigger::Site { site: fs, n } => fs == site && *n == count,
        };
        if m {
            hit = Some(i);
            break;
        }
    }
    match hit {
        Some(i) => fire_fault(g, me, i, site),
        None => (g, None),
    }
}

fn is_internal_site(site: &str) -> bool {
    matches!(
        site,
        "spawn" | "wait" | "wait_done" | "task_end" | "idle" | "mutex_wait" | "bridge_pull" | "par_sort"
    )
}

fn sched_locked(
    mut g: MutexGuard<'static, Option<State>>,
    me: usize,
    site: &'static str,
) -> MutexGuard<'static, Option<State>> {
    {
        let s = g.as_mut().unwrap();
        s.step += 1;
        if s.step > s.max_steps {
            die(g, "step_budget", EXIT_STEP_BUDGET, "step budget exceeded");
        }
        if let Strategy::Pct { change_points } = &s.strategy {
            if change_points.binary_search(&s.step).is_ok() {
                // Lower the running thread's priority below everything else.
                let low = s.step;
                s.threads[me].prio = low;
            }
        }
    }
    let (mut g, _) = check_faults(g, me, site, false);
    let s = g.as_mut().unwrap();
    let next = s.pick_next(me, true).unwrap_or(me);
    switch_to(g, me, next, site)
}

// ---------------------------------------------------------------------------------------------
// Public API
// ---------------------------------------------------------------------------------------------

/// A scheduling point: the scheduler may pre-empt the caller here. Must not be called while
/// holding a lock that another simulated thread could want.
pub fn sched_point(site: &'static str) {
    let mut g = lock();
    let Some(me) = enter(&mut g) else { return };
    if !g.as_ref().unwrap().active {
        return;
    }
    drop(sched_locked(g, me, site));
}

/// Records an event. Never a scheduling point, so may be called inside critical sections.
pub fn event(kind: &str, a: u64, b: u64, c: u64) {
    let mut g = lock();
    let Some(me) = enter(&mut g) else { return };
    let s = g.as_mut().unwrap();
    s.log_line(me, kind, a, b, c);
}

/// Counts a reach probe ("this rare condition was hit").
pub fn probe(name: &'static str) {
    let mut g = lock();
    if enter(&mut g).is_none() {
        return;
    }
    let s = g.as_mut().unwrap();
    *s.probes.entry(name).or_insert(0) += 1;
}

/// Marks a phase boundary: event + scheduling point + crash-fault point.
pub fn phase(name: &'static str) {
    let mut g = lock();
    let Some(me) = enter(&mut g) else { return };
    {
        let s = g.as_mut().unwrap();
        let _ = writeln!(s.log, "{} {} phase:{} 0 0 0", s.step, me, name);
    }
    drop(sched_locked(g, me, name));
}

/// A point where the plan may inject an error return.
pub fn fault_err(site: &'static str) -> Result<(), String> {
    let mut g = lock();
    let Some(me) = enter(&mut g) else {
        return Ok(());
    };
    {
        let s = g.as_mut().unwrap();
        s.step += 1;
    }
    let (_g, r) = check_faults(g, me, site, true);
    match r {
        Some(m) => Err(m),
        None => Ok(()),
    }
}

pub fn hash_str(s: &str) -> u64 {
    let mut h = 0xcbf29ce484222325u64;
    for b in s.bytes() {
        h ^= u64::from(b);
        h = h.wrapping_mul(0x100000001b3);
    }
    h & 0xffff_ffff
}

/// In-run invariant. On failure the process exits with EXIT_INVARIANT after flushing the log.
pub fn invariant(cond: bool, text: &'static str) {
    if cond {
        return;
    }
    let mut g = lock();
    if enter(&mut g).is_none() {
        return;
    }
    {
        let s = g.as_mut().unwrap();
        let _ = writeln!(s.log, "# INVARIANT {text}");
    }
    die(g, "invariant", EXIT_INVARIANT, text);
}

/// Blocks until `notify(key)` has been called (sticky).
pub fn wait_event(key: &'static str) {
    let mut g = lock();
    let Some(me) = enter(&mut g) else { return };
    loop {
        let s = g.as_mut().unwrap();
        s.step += 1;
        if s.events_set.contains(&key) {
            s.threads[me].st = St::Running;
            s.threads[me].wait = Wait::None;
            return;
        }
        s.threads[me].st = St::Blocked;
        s.threads[me].wait = Wait::Event(key);
        match s.pick_next(me, false) {
            Some(next) => g = switch_to(g, me, next, key),
            None => die(g, "deadlock", EXIT_DEADLOCK, "wait_event with nothing runnable"),
        }
    }
}

pub fn notify(key: &'static str) {
    let mut g = lock();
    if enter(&mut g).is_none() {
        return;
    }
    let s = g.as_mut().unwrap();
    if !s.events_set.contains(&key) {
        s.events_set.push(key);
    }
}

/// Draw used by the rayon model (how a parallel iterator is cut, …). Recorded as a decision.
pub fn rand_below(n: usize) -> usize {
    let mut g = lock();
    if enter(&mut g).is_none() {
        return 0;
    }
    let s = g.as_mut().unwrap();
    s.decide(n, |s| match s.strategy {
        Strategy::RoundRobin => 0,
        _ => s.rng.below(n as u64) as usize,
    })
}

pub fn is_worker() -> bool {
    let mut g = lock();
    let Some(me) = enter(&mut g) else {
        return false;
    };
    g.as_ref().unwrap().threads[me].worker
}

pub fn pool_built() -> bool {
    let mut g = lock();
    if enter(&mut g).is_none() {
        return false;
    }
    g.as_ref().unwrap().pool_built
}

pub fn num_threads() -> usize {
    let mut g = lock();
    if enter(&mut g).is_none() {
        return 1;
    }
    g.as_ref().unwrap().pool_size.max(1)
}

/// Builds the pool. With `use_current`, the calling thread becomes the only worker.
/// Returns false if a pool already exists.
pub fn init_pool(n: usize, use_current: bool) -> bool {
    let mut g = lock();
    let Some(me) = enter(&mut g) else {
        return false;
    };
    let s = g.as_mut().unwrap();
    if s.pool_built {
        return false;
    }
    s.pool_built = true;
    s.use_current = use_current;
    let n = n.max(1);
    s.pool_size = n;
    // rayon's `use_current_thread()` makes the calling thread one of the pool's `n` workers (it
    // does not by itself limit the pool to one thread).
    let to_spawn = if use_current {
        s.threads[me].worker = true;
        n - 1
    } else {
        n
    };
    s.log_line(me, "pool", n as u64, u64::from(use_current), 0);
    let mut ids = Vec::new();
    for _ in 0..to_spawn {
        let t = s.new_thread(true);
        s.threads[t].st = St::Blocked;
        s.threads[t].wait = Wait::Idle;
        ids.push(t);
    }
    drop(g);
    for t in ids {
        let r = std::thread::Builder::new()
            .name(format!("sim-worker-{t}"))
            .stack_size(16 << 20)
            .spawn(move || worker_main(t));
        if r.is_err() {
            harness_error("cannot create worker thread");
        }
    }
    true
}

fn worker_main(me: usize) {
    ME.with(|m| m.set(me));
    let mut g = lock();
    // Wait for the baton.
    let cv = g.as_ref().unwrap().threads[me].cv.clone();
    while g.as_ref().unwrap().current != me {
        g = match cv.wait(g) {
            Ok(g) => g,
            Err(p) => p.into_inner(),
        };
    }
    loop {
        let s = g.as_mut().unwrap();
        if !s.bag.is_empty() {
            // Lazy workers: with only detached tasks pending, behave like an idle worker for as long
            // as some other thread can run (see `lazy_workers`).
            let starve = s.lazy_workers
                && s.bag.iter().all(|t| t.latch.is_none())
                && (0..s.threads.len()).any(|t| {
                    t != me
                        && s.can_progress(t)
                        && s.threads[t].stall_until <= s.step
                        && !(s.threads[t].st == St::Blocked && matches!(s.threads[t].wait, Wait::Idle))
                });
            if !starve {
                s.threads[me].st = St::Running;
                s.threads[me].wait = Wait::None;
                g = run_one_task(g, me);
                continue;
            }
        }
        s.step += 1;
        s.threads[me].st = St::Blocked;
        s.threads[me].wait = Wait::Idle;
        match s.pick_next(me, false) {
            Some(next) => g = switch_to(g, me, next, "idle"),
            None => die(g, "deadlock", EXIT_DEADLOCK, "idle worker with nothing runnable"),
        }
    }
}

/// Takes a task (scheduler's choice) from the non-empty bag and runs it on this stack.
fn run_one_task(
    mut g: MutexGuard<'static, Option<State>>,
    me: usize,
) -> MutexGuard<'static, Option<State>> {
    let s = g.as_mut().unwrap();
    let idx = s.pick_task();
    let task = s.bag.remove(idx);
    s.tasks_run += 1;
    s.threads[me].depth += 1;
    if s.log_level >= 2 {
        let d = u64::from(s.threads[me].depth);
        s.log_line(me, "task_start", task.id, hash_str(task.kind), d);
    }
    s.trace_hash = fnv(s.trace_hash, task.id << 8 | me as u64);
    let Task { id, latch, f, .. } = task;
    drop(g);
    f();
    let mut g = lock();
    let s = g.as_mut().unwrap();
    s.threads[me].depth -= 1;
    if let Some(l) = latch {
        s.latches[l] -= 1;
    }
    if s.log_level >= 2 {
        s.log_line(me, "task_end", id, 0, 0);
    }
    sched_locked(g, me, "task_end")
}

pub fn new_latch(count: usize) -> LatchId {
    let mut g = lock();
    if enter(&mut g).is_none() {
        harness_error("new_latch from unknown thread");
    }
    let s = g.as_mut().unwrap();
    s.latches.push(count);
    LatchId(s.latches.len() - 1)
}

pub fn latch_add(l: LatchId, n: usize) {
    let mut g = lock();
    let s = g.as_mut().unwrap();
    s.latches[l.0] += n;
}

pub fn latch_dec(l: LatchId) {
    let mut g = lock();
    let s = g.as_mut().unwrap();
    s.latches[l.0] -= 1;
}

/// Adds a task to the bag. When it completes, `latch` (if any) is decremented. The caller may be
/// pre-empted before this returns, but the task never runs inside this call on this stack.
pub fn spawn_task(kind: &'static str, latch: Option<LatchId>, f: TaskFn) -> TaskId {
    let mut g = lock();
    let Some(me) = enter(&mut g) else {
        harness_error("spawn_task from unknown thread");
    };
    let s = g.as_mut().unwrap();
    let id = s.next_task;
    s.next_task += 1;
    s.bag.push(Task {
        id,
        kind,
        latch: latch.map(|l| l.0),
        f,
    });
    if s.log_level >= 2 {
        s.log_line(me, "task_new", id, hash_str(kind), 0);
    }
    drop(sched_locked(g, me, "spawn"));
    TaskId(id)
}

/// If the task has not been started yet, removes it from the bag (without running it, and
/// decrementing its latch) and returns true.
pub fn try_take_back(t: TaskId) -> bool {
    let mut g = lock();
    let s = g.as_mut().unwrap();
    if let Some(pos) = s.bag.iter().position(|x| x.id == t.0) {
        let task = s.bag.remove(pos);
        if let Some(l) = task.latch {
            s.latches[l] -= 1;
        }
        drop(g);
        drop(task);
        true
    } else {
        false
    }
}

/// Blocks until the latch reaches zero. If `help` and the caller is a pool worker, other pending
/// tasks may be executed on this stack while waiting (as rayon does).
pub fn wait_latch(l: LatchId, help: bool) {
    let mut g = lock();
    let Some(me) = enter(&mut g) else {
        harness_error("wait_latch from unknown thread");
    };
    loop {
        let s = g.as_mut().unwrap();
        if s.latches[l.0] == 0 {
            s.threads[me].st = St::Running;
            s.threads[me].wait = Wait::None;
            // Leaving a wait is a scheduling point too.
            drop(sched_locked(g, me, "wait_done"));
            return;
        }
        s.step += 1;
        if s.step > s.max_steps {
            die(g, "step_budget", EXIT_STEP_BUDGET, "step budget exceeded");
        }
        let can_help = help && s.threads[me].worker && !s.bag.is_empty();
        s.threads[me].st = St::Blocked;
        s.threads[me].wait = Wait::Latch { id: l.0, help };
        // While blocked, I'm a candidate like any other blocked thread: decide among all.
        let cands = s.candidates(me);
        if cands.is_empty() {
            if can_help {
                s.threads[me].st = St::Running;
                s.threads[me].wait = Wait::None;
                g = run_one_task(g, me);
                continue;
            }
            die(g, "deadlock", EXIT_DEADLOCK, "wait_latch with nothing runnable");
        }
        let n = cands.len() + usize::from(can_help);
        let idx = s.decide(n, |s| match &s.strategy {
            Strategy::RoundRobin => {
                if can_help {
                    0
                } else {
                    s.rr_next = s.rr_next.wrapping_add(1);
                    s.rr_next % n
                }
            }
            Strategy::Pct { .. } => {
                let mut best = 0usize;
                let mut best_prio = 0u64;
                for i in 0..n {
                    let t = if can_help {
                        if i == 0 { me } else { cands[i - 1] }
                    } else {
                        cands[i]
                    };
                    if s.threads[t].prio > best_prio {
                        best_prio = s.threads[t].prio;
                        best = i;
                    }
                }
                best
            }
            _ => s.rng.below(n as u64) as usize,
        });
        if can_help && idx == 0 {
            s.threads[me].st = St::Running;
            s.threads[me].wait = Wait::None;
            g = run_one_task(g, me);
            continue;
        }
        let next = if can_help { cands[idx - 1] } else { cands[idx] };
        g = switch_to(g, me, next, "wait");
    }
}

/// Number of tasks not yet started.
pub fn pending_tasks() -> usize {
    let g = lock();
    g.as_ref().map_or(0, |s| s.bag.len())
}

/// Current scheduler step (the simulator's notion of time).
pub fn now() -> u64 {
    let g = lock();
    g.as_ref().map_or(0, |s| s.step)
}

/// Flushes the logs now (used before the process does something we cannot observe, like
/// `_exit`).
pub fn flush() {
    let mut g = lock();
    if let Some(s) = g.as_mut() {
        s.flushed = false;
        let r = s.result;
        s.write_outputs();
        s.flushed = false;
        s.result = r;
    }
}

/// Blocks the caller until `wake_addr(addr)` is called by another simulated thread. Returns false
/// (without blocking) when called from a thread the simulator doesn't schedule.
pub fn wait_addr(addr: usize) -> bool {
    let mut g = lock();
    let Some(me) = enter(&mut g) else {
        return false;
    };
    let s = g.as_mut().unwrap();
    s.step += 1;
    s.threads[me].st = St::Blocked;
    s.threads[me].wait = Wait::Addr(addr);
    match s.pick_next(me, false) {
        Some(next) => {
            let mut g = switch_to(g, me, next, "mutex_wait");
            let s = g.as_mut().unwrap();
            s.threads[me].st = St::Running;
            s.threads[me].wait = Wait::None;
        }
        None => die(g, "deadlock", EXIT_DEADLOCK, "mutex wait with nothing runnable"),
    }
    true
}

pub fn wake_addr(addr: usize) {
    let mut g = lock();
    if enter(&mut g).is_none() {
        return;
    }
    let s = g.as_mut().unwrap();
    for t in &mut s.threads {
        if t.st == St::Blocked && t.wait == Wait::Addr(addr) {
            t.st = St::Runnable;
            t.wait = Wait::None;
        }
    }
}

pub mod sync {
    //! A `Mutex` with std's API whose `lock` is a scheduling point and whose contention is
    //! resolved by the simulator (a thread descheduled inside a critical section keeps the lock;
    //! others block in the simulator, never in the OS).
    use std::ops::Deref;
    use std::ops::DerefMut;
    use std::sync::LockResult;
    use std::sync::PoisonError;
    use std::sync::TryLockError;

    #[derive(Default)]
    pub struct Mutex<T: ?Sized> {
        inner: std::sync::Mutex<T>,
    }

    pub struct MutexGuard<'a, T: ?Sized> {
        guard: Option<std::sync::MutexGuard<'a, T>>,
        addr: usize,
    }

    impl<T> Mutex<T> {
        pub const fn new(t: T) -> Self {
            Mutex {
                inner: std::sync::Mutex::new(t),
            }
        }

        pub fn into_inner(self) -> LockResult<T> {
            self.inner.into_inner()
        }
    }

    impl<T: ?Sized> Mutex<T> {
        pub fn lock(&self) -> LockResult<MutexGuard<'_, T>> {
            let addr = self as *const Self as *const u8 as usize;
            super::sched_point("mutex_lock");
            loop {
                match self.inner.try_lock() {
                    Ok(g) => {
                        return Ok(MutexGuard {
                            guard: Some(g),
                            addr,
                        });
                    }
                    Err(TryLockError::Poisoned(p)) => {
                        return Err(PoisonError::new(MutexGuard {
                            guard: Some(p.into_inner()),
                            addr,
                        }));
                    }
                    Err(TryLockError::WouldBlock) => {
                        super::probe("mutex_contended");
                        if !super::wait_addr(addr) {
                            // Not a simulated thread: fall back to a real blocking lock.
                            return match self.inner.lock() {
                                Ok(g) => Ok(MutexGuard {
                                    guard: Some(g),
                                    addr,
                                }),
                                Err(p) => Err(PoisonError::new(MutexGuard {
                                    guard: Some(p.into_inner()),
                                    addr,
                                })),
                            };
                        }
                    }
                }
            }
        }

        pub fn get_mut(&mut self) -> LockResult<&mut T> {
            self.inner.get_mut()
        }

        pub fn is_poisoned(&self) -> bool {
            self.inner.is_poisoned()
        }
    }

    impl<T: ?Sized> Deref for MutexGuard<'_, T> {
        type Target = T;
        fn deref(&self) -> &T {
            self.guard.as_ref().unwrap()
        }
    }

    impl<T: ?Sized> DerefMut for MutexGuard<'_, T> {
        fn deref_mut(&mut self) -> &mut T {
            self.guard.as_mut().unwrap()
        }
    }

    impl<T: ?Sized> Drop for MutexGuard<'_, T> {
        fn drop(&mut self) {
            self.guard.take();
            super::wake_addr(self.addr);
        }
    }

    impl<T: ?Sized + std::fmt::Debug> std::fmt::Debug for Mutex<T> {
        fn fmt(&self, f: &mut std::fmt::Formatter<'_>) -> std::fmt::Result {
            self.inner.fmt(f)
        }
    }

    impl<T: ?Sized + std::fmt::Debug> std::fmt::Debug for MutexGuard<'_, T> {
        fn fmt(&self, f: &mut std::fmt::Formatter<'_>) -> std::fmt::Result {
            (**self).fmt(f)
        }
    }
}
