"""Validators over the simulator's event log (the recorded history of one run)."""
from collections import Counter, defaultdict


def validate_gc_trace(events):
    """C39 trace validation. Returns (problems: list[str], probes: dict)."""
    problems = []
    probes = Counter()
    sent = defaultdict(Counter)      # group -> Counter(item)
    handled = defaultdict(Counter)
    active = {}                      # group -> tid currently inside do_pending_work
    enters = Counter()
    parks = Counter()
    wakes = Counter()
    errexits = Counter()
    activated = {}
    delayed_groups = set()
    drained = Counter()
    activation_done_steps = []
    last_activated_step = -1
    done = None
    nerr = 0
    first_enter_step = {}
    send_before_activation = 0
    for (step, tid, kind, a, b, c) in events:
        if not kind.startswith("gc_"):
            continue
        if kind == "gc_send":
            sent[a][b] += 1
            if c:
                wakes[a] += 1
                probes["send_woke_parked_worker"] += 1
                if a in active:
                    problems.append(f"step {step}: send to group {a} took a parked worker while "
                                    f"thread {active[a]} is still handling the group")
            else:
                if a not in activated:
                    send_before_activation += 1
                    probes["request_before_activation_finished"] += 1
                elif a in active:
                    probes["request_while_group_running"] += 1
        elif kind == "gc_enter":
            if a in active:
                problems.append(f"step {step}: group {a} entered by thread {tid} while thread "
                                f"{active[a]} is handling it")
            active[a] = tid
            enters[a] += 1
            first_enter_step.setdefault(a, step)
        elif kind == "gc_handle":
            if active.get(a) != tid:
                problems.append(f"step {step}: group {a} item handled by thread {tid} which does "
                                f"not own the group (owner {active.get(a)})")
            handled[a][b] += 1
        elif kind == "gc_swap":
            if b > 0:
                probes["swap_with_new_work"] += 1
        elif kind == "gc_park":
            if active.get(a) != tid:
                problems.append(f"step {step}: group {a} parked by non-owner thread {tid}")
            active.pop(a, None)
            parks[a] += 1
        elif kind == "gc_errexit":
            active.pop(a, None)
            errexits[a] += 1
        elif kind == "gc_activated":
            activated[a] = step
            last_activated_step = step
            if b:
                delayed_groups.add(a)
        elif kind == "gc_activation_done":
            activation_done_steps.append((step, a, b, tid))
        elif kind == "gc_delay_drained":
            drained[a] += 1
            probes["delayed_group_drained"] += 1
            # The thread that drains may differ from the one that pushed.
            if activated.get(a) is not None:
                pass
        elif kind == "gc_done":
            done = (a, b)
            nerr = b
    if done is None:
        return problems, probes  # traversal didn't complete (earlier failure): nothing to check
    ngroups = done[0]
    if nerr == 0 and not errexits:
        for g in range(ngroups):
            if g not in activated:
                problems.append(f"group {g} never activated")
        for g in sorted(set(sent) | set(handled)):
            missing = sent[g] - handled[g]
            if missing:
                problems.append(f"group {g}: {sum(missing.values())} request(s) sent but never "
                                f"handled (lost work)")
        for g in range(ngroups):
            if enters[g] != parks[g]:
                problems.append(f"group {g}: {enters[g]} enters but {parks[g]} parks")
            expect = 1 + wakes[g]
            if enters[g] != expect:
                problems.append(f"group {g}: entered {enters[g]} times, expected {expect} "
                                f"(1 activation + {wakes[g]} wake-ups)")
        for g in delayed_groups:
            if drained[g] != 1:
                problems.append(f"delayed group {g} drained {drained[g]} times")
            if first_enter_step.get(g, 1 << 62) < last_activated_step:
                problems.append(f"delayed group {g} processed before all groups were activated")
        zeros = [x for x in activation_done_steps if x[2] == 0]
        if len(zeros) != 1:
            problems.append(f"{len(zeros)} activations observed remaining==0 (expected exactly 1)")
        if len(activation_done_steps) != ngroups:
            problems.append(f"{len(activation_done_steps)} activation completions for {ngroups} "
                            f"groups")
    # who drained vs who pushed
    for (step, g, rem, tid) in activation_done_steps:
        if rem == 0 and delayed_groups and g not in delayed_groups:
            probes["delayed_group_drained_by_other_group_task"] += 1
    return problems, probes


def validate_sm_trace(events):
    """C40 trace validation. A run may merge several output sections one after another; the log is
    cut at sm_section_done events."""
    problems = []
    probes = Counter()
    seg = []
    for ev in events:
        kind = ev[2]
        if not kind.startswith("sm_"):
            continue
        seg.append(ev)
        if kind == "sm_section_done":
            _validate_sm_section(seg, problems, probes)
            seg = []
    return problems, probes


NBUCKETS = 16


def _validate_sm_section(seg, problems, probes):
    done = seg[-1]
    ngroups, finished, nerr = done[3], done[4], done[5]
    if nerr:
        probes["section_with_error"] += 1
        return
    probes["sections"] += 1
    group_started = Counter()
    puts = {}
    takes = {}
    parks = defaultdict(list)
    bucket_next = Counter()
    bucket_done = Counter()
    # Every bucket starts parked at input group 0 (create_split_resources).
    parked_at = {b: 0 for b in range(NBUCKETS)}
    for (step, tid, kind, a, b, c) in seg:
        if kind == "sm_group_start":
            group_started[a] += 1
        elif kind == "sm_slot_put":
            if (a, b) in puts:
                problems.append(f"step {step}: slot (group {a}, bucket {b}) filled twice")
            puts[(a, b)] = step
            if c == 2:
                problems.append(f"step {step}: slot (group {a}, bucket {b}) overwritten while "
                                f"holding strings")
            if c == 1:
                probes["put_resumes_parked_bucket"] += 1
                if parked_at.get(b) != a:
                    problems.append(f"step {step}: put (group {a}, bucket {b}) found a parked "
                                    f"bucket, but bucket {b} was parked at {parked_at.get(b)}")
                parked_at.pop(b, None)
        elif kind == "sm_slot_take":
            if (a, b) in takes:
                problems.append(f"step {step}: slot (group {a}, bucket {b}) taken twice")
            takes[(a, b)] = step
            if (a, b) not in puts:
                problems.append(f"step {step}: slot (group {a}, bucket {b}) taken before put")
            if bucket_next[b] != a:
                problems.append(f"step {step}: bucket {b} took group {a}, expected group "
                                f"{bucket_next[b]} (inputs must be applied in order)")
            bucket_next[b] = a + 1
        elif kind == "sm_bucket_park":
            probes["bucket_parked"] += 1
            if b in parked_at:
                problems.append(f"step {step}: bucket {b} parked twice")
            parked_at[b] = a
            if a != bucket_next[b]:
                problems.append(f"step {step}: bucket {b} parked waiting for group {a} but its "
                                f"next group is {bucket_next[b]}")
        elif kind == "sm_bucket_done":
            bucket_done[a] += 1
            if b != ngroups:
                problems.append(f"step {step}: bucket {a} finished at group {b} of {ngroups}")
        elif kind in ("sm_reserve_ok", "sm_unreserve", "sm_return_vec", "sm_reserve_low",
                      "sm_reserve_cas_lost"):
            if a > b:
                problems.append(f"step {step}: reuse pool available {a} exceeds capacity {b}")
            if kind == "sm_reserve_cas_lost":
                probes["reserve_cas_lost"] += 1
            if kind == "sm_reserve_low":
                probes["reserve_low"] += 1
    for g in range(ngroups):
        if group_started[g] != 1:
            problems.append(f"input group {g} processed {group_started[g]} times")
        for b in range(NBUCKETS):
            if (g, b) not in puts:
                problems.append(f"slot (group {g}, bucket {b}) never filled")
            if (g, b) not in takes:
                problems.append(f"slot (group {g}, bucket {b}) never consumed")
    for b in range(NBUCKETS):
        if bucket_done[b] != 1:
            problems.append(f"bucket {b} finished {bucket_done[b]} times")
    if finished != NBUCKETS:
        problems.append(f"{finished} finished buckets")
    if ngroups > 1:
        probes["multi_group_sections"] += 1
