"""Self-tests of the machinery itself: determinism (same seed => same execution), and that the
scheduler's own oracles (deadlock detector, step budget) are quiet on the unchanged tree."""
from .common import HarnessError, pool_map


def _run(args):
    fam, job = args
    if fam == "graph":
        from . import family_graph as m
    elif fam == "str":
        from . import family_str as m
    elif fam == "det":
        from . import family_det as m
    elif fam == "err":
        from . import family_err as m
    elif fam in ("fs17", "fs18", "fs19"):
        from . import family_fs as m
    elif fam == "js":
        from . import family_js as m
    elif fam == "mut":
        from . import family_mut as m
    elif fam == "conc":
        from . import family_conc as m
    else:
        from . import family_arch as m
    r = m.run_job(job)
    return (fam, job["index"], [tuple(t) for t in r.get("trace", [])])


def run_twin(tier, seed):
    """Model validation: the production twin (real rayon, real threads) must produce the same bytes
    as the simulated linker for every determinism class."""
    import subprocess
    from . import family_det
    from .common import VERIF
    import os
    rc = subprocess.run([os.path.join(VERIF, "checks", "build_twin.sh")]).returncode
    if rc != 0:
        raise HarnessError("twin build failed")
    n = {"quick": 16, "thorough": 160}[tier]
    jobs = [{"prop": "C06", "seed": seed, "index": i, "tier": "quick", "schedules": 3, "twin": True}
            for i in range(n)]
    equal = 0
    bad = 0
    for r in pool_map(family_det.run_job, jobs):
        equal += r["counters"].get("twin_equal_classes", 0)
        for v in r["violations"]:
            bad += 1
            print(f"   {v['signature']}: {v['detail'][:300]}")
    print(f"twin: {n} classes, {equal} with production output == simulated output (3 real executions "
          f"each, threads 4/1/8), {bad} violations")
    return 1 if bad else (0 if equal == n else 2)


def run(what, tier, seed):
    if what == "twin":
        return run_twin(tier, seed)
    if what != "determinism":
        raise HarnessError(f"unknown selftest {what}")
    n = {"quick": 4, "thorough": 40}[tier]
    sched = {"quick": 6, "thorough": 10}[tier]
    jobs = []
    for fam in ("graph", "str", "det", "err", "arch"):
        for i in range(n):
            jobs.append((fam, {"prop": "selftest", "seed": seed, "index": i, "tier": "quick",
                               "schedules": sched}))
    # Process-level families (crash grid, system-call fault seam, jobserver, input mutation,
    # concurrent links): same plan => same exit status, step count, interleaving hash, fired
    # system-call faults and call counts.
    m = max(1, n // 2)
    for fam, prop in (("fs17", "C17"), ("fs18", "C18"), ("fs19", "C19"), ("js", "C35"), ("mut", "C20"),
                      ("conc", "C19")):
        for i in range(m):
            jobs.append((fam, {"prop": prop, "seed": seed, "index": i, "tier": "quick",
                               "schedules": 2}))
    a = pool_map(_run, jobs)
    b = pool_map(_run, jobs, procs=3)
    c = pool_map(_run, list(reversed(jobs)), procs=7)
    c = list(reversed(c))
    bad = 0
    runs = 0
    sim_aborts = 0
    for x, y, z in zip(a, b, c):
        runs += len(x[2])
        for t in x[2]:
            if t[1] in (97, 98, 99):
                sim_aborts += 1
        if x != y or x != z:
            bad += 1
            print(f"DIVERGENCE family={x[0]} index={x[1]}")
            for t1, t2, t3 in zip(x[2], y[2], z[2]):
                if t1 != t2 or t1 != t3:
                    print(f"   {t1} | {t2} | {t3}")
    print(f"determinism: {len(jobs)} jobs x 3 repetitions (16/3/7 harness workers), {runs} simulated "
          f"links each, {bad} divergent jobs, {sim_aborts} scheduler aborts (deadlock/step budget/"
          f"invariant)")
    if bad or sim_aborts:
        print("HARNESS-ERROR: determinism self-test failed")
        return 2
    return 0
