"""Self-tests of the machinery itself: determinism (same seed => same execution), and that the
scheduler's own oracles (deadlock detector, step budget) are quiet on the unchanged tree."""
from .common import HarnessError, pool_map


def _run(args):
    fam, job = args
    if fam == "graph":
        from . import family_graph as m
    elif fam == "str":
        from . import family_str as m
    elif fam == "det":
        from . import family_det as m
    elif fam == "err":
        from . import family_err as m
    else:
        from . import family_arch as m
    r = m.run_job(job)
    return (fam, job["index"], [tuple(t) for t in r.get("trace", [])])


def run(what, tier, seed):
    if what != "determinism":
        raise HarnessError(f"unknown selftest {what}")
    n = {"quick": 4, "thorough": 40}[tier]
    sched = {"quick": 6, "thorough": 10}[tier]
    jobs = []
    for fam in ("graph", "str", "det", "err", "arch"):
        for i in range(n):
            jobs.append((fam, {"prop": "selftest", "seed": seed, "index": i, "tier": "quick",
                               "schedules": sched}))
    a = pool_map(_run, jobs)
    b = pool_map(_run, jobs, procs=3)
    c = pool_map(_run, list(reversed(jobs)), procs=7)
    c = list(reversed(c))
    bad = 0
    runs = 0
    sim_aborts = 0
    for x, y, z in zip(a, b, c):
        runs += len(x[2])
        for t in x[2]:
            if t[1] in (97, 98, 99):
                sim_aborts += 1
        if x != y or x != z:
            bad += 1
            print(f"DIVERGENCE family={x[0]} index={x[1]}")
            for t1, t2, t3 in zip(x[2], y[2], z[2]):
                if t1 != t2 or t1 != t3:
                    print(f"   {t1} | {t2} | {t3}")
    print(f"determinism: {len(jobs)} jobs x 3 repetitions (16/3/7 harness workers), {runs} simulated "
          f"links each, {bad} divergent jobs, {sim_aborts} scheduler aborts (deadlock/step budget/"
          f"invariant)")
    if bad or sim_aborts:
        print("HARNESS-ERROR: determinism self-test failed")
        return 2
    return 0
