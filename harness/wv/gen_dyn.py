"""dyngen: an executable (or shared object) linked against generated shared libraries that
reference many of its functions (cross-group ExportDynamic requests), plus helpers that wrap
objects into archives, thin archives and linker scripts."""
import os

from .common import HarnessError, assemble, run_cmd


class Dyn:
    def __init__(self):
        self.params = {}


def generate(rng, size="small", hash_style=None, kind=None):
    d = Dyn()
    if size == "small":
        d.nfun = rng.randint(10, 60)
        d.nlibs = rng.randint(2, 5)
    else:
        d.nfun = rng.randint(100, 400)
        d.nlibs = rng.randint(2, 6)
    d.nobj = rng.randint(2, 8)
    d.hash_style = hash_style or rng.choice(["gnu", "sysv", "both"])
    d.kind = kind or rng.choice(["exe", "pie", "shared"])
    d.export_dynamic = rng.random() < 0.3
    d.lib_refs = []
    for _ in range(d.nlibs):
        k = rng.randint(1, max(1, d.nfun // 2))
        d.lib_refs.append(sorted(rng.sample(range(d.nfun), k)))
    d.ndata = rng.randint(0, 6)  # data symbols defined in libs, referenced directly by the exe
    d.params = dict(nfun=d.nfun, nlibs=d.nlibs, nobj=d.nobj, hash_style=d.hash_style, kind=d.kind,
                    export_dynamic=d.export_dynamic, ndata=d.ndata, size=size)
    d.fun_obj = [rng.randrange(d.nobj) for _ in range(d.nfun)]
    # Per library data symbol: is it read directly from code (copy relocation in a non-PIC exe), is
    # its address stored in writable data (absolute relocation against the same symbol), is that
    # stored address taken through a weak alias of the symbol, and in which object does the pointer
    # live (the object that holds the pointer and the one that reads the variable may be scanned in
    # either order and may be in different groups).
    d.data_use = []
    for i in range(d.ndata):
        d.data_use.append({"direct": rng.random() < 0.8, "ptr": rng.random() < 0.6,
                           "alias": rng.random() < 0.4, "ptr_obj": rng.randrange(d.nobj),
                           "ptr_first": rng.random() < 0.5})
    # addresses of library functions stored in data (function pointers into a shared library)
    d.fptrs = [(rng.randrange(d.nlibs), rng.randrange(d.nobj)) for _ in range(rng.randint(0, 3))]
    d.params["data_use"] = [(u["direct"], u["ptr"], u["alias"]) for u in d.data_use]
    return d


def emit(d, workdir):
    libs = []
    for k in range(d.nlibs):
        out = ['\t.text']
        for j, fi in enumerate(d.lib_refs[k]):
            out.append(f"\t.globl g{k}_{j}")
            out.append(f"\t.type g{k}_{j},@function")
            out.append(f"g{k}_{j}:")
            out.append(f"\tjmp f{fi}@PLT")
            out.append(f"\t.size g{k}_{j}, .-g{k}_{j}")
        if k == 0:
            out.append("\t.data")
            for i in range(d.ndata):
                out.append(f"\t.globl dv{i}")
                out.append(f"\t.type dv{i},@object")
                out.append(f"dv{i}:\t.quad {i + 7}")
                out.append(f"\t.size dv{i}, 8")
                out.append(f"\t.weak dva{i}")
                out.append(f"\t.set dva{i}, dv{i}")
        out.append('\t.section .note.GNU-stack,"",@progbits')
        src = os.path.join(workdir, f"lib{k}.s")
        with open(src, "w") as f:
            f.write("\n".join(out) + "\n")
        obj = os.path.join(workdir, f"lib{k}.o")
        assemble(src, obj)
        so = os.path.join(workdir, f"lib{k}.so")
        rc, o, e = run_cmd(["ld.bfd", "-shared", "-o", so, obj, f"-soname=lib{k}.so",
                            "--hash-style=both"])
        if rc != 0:
            raise HarnessError(f"ld.bfd -shared failed: {e.decode(errors='replace')[:500]}")
        libs.append(so)
    objs = []
    for o in range(d.nobj):
        out = []
        for i in range(d.nfun):
            if d.fun_obj[i] != o:
                continue
            out.append(f'\t.section .text.f{i},"ax",@progbits')
            out.append(f"\t.globl f{i}")
            out.append(f"\t.type f{i},@function")
            out.append(f"f{i}:")
            out.append(f"\tmovl ${i}, %eax")
            out.append("\tret")
            out.append(f"\t.size f{i}, .-f{i}")
        if d.kind != "shared":
            for i, u in enumerate(getattr(d, "data_use", [])):
                if u["ptr"] and u["ptr_obj"] == o:
                    out.append(f'\t.section .data.p{i},"aw",@progbits')
                    out.append("\t.p2align 3")
                    out.append(f"\t.globl p{i}")
                    out.append(f"p{i}:\t.quad {'dva' if u['alias'] else 'dv'}{i}")
            for n, (k, po) in enumerate(getattr(d, "fptrs", [])):
                if po == o and d.lib_refs[k]:
                    out.append(f'\t.section .data.fp{n},"aw",@progbits')
                    out.append("\t.p2align 3")
                    out.append(f"\t.globl fp{n}")
                    out.append(f"fp{n}:\t.quad g{k}_0")
        out.append('\t.section .note.GNU-stack,"",@progbits')
        src = os.path.join(workdir, f"m{o}.s")
        with open(src, "w") as f:
            f.write("\n".join(out) + "\n")
        obj = os.path.join(workdir, f"m{o}.o")
        assemble(src, obj)
        objs.append(obj)
    rt = ['\t.section .text._start,"ax",@progbits', "\t.globl _start", "\t.type _start,@function",
          "_start:"]
    for k in range(d.nlibs):
        for j in range(0, len(d.lib_refs[k]), 3):
            rt.append(f"\tcall g{k}_{j}@PLT")
    if d.kind != "shared":
        use = getattr(d, "data_use", [{"direct": True, "ptr": False}] * d.ndata)
        for i in range(d.ndata):
            u = use[i]
            ptr_ref = [f"\tmovq p{i}(%rip), %rax"] if u["ptr"] else []
            direct = []
            if u["direct"]:
                # direct reference to a data symbol in a shared library: copy relocation in non-PIC exe
                direct = [f"\tmovq dv{i}(%rip), %rax" if d.kind == "exe"
                          else f"\tmovq dv{i}@GOTPCREL(%rip), %rax"]
            rt += (ptr_ref + direct) if u.get("ptr_first") else (direct + ptr_ref)
        for n, (k, po) in enumerate(getattr(d, "fptrs", [])):
            if d.lib_refs[k]:
                rt.append(f"\tmovq fp{n}(%rip), %rax")
    rt += ["\tmovl $231, %eax", "\txorl %edi, %edi", "\tsyscall", "\t.size _start, .-_start",
           '\t.section .note.GNU-stack,"",@progbits']
    src = os.path.join(workdir, "rt.s")
    with open(src, "w") as f:
        f.write("\n".join(rt) + "\n")
    rto = os.path.join(workdir, "rt.o")
    assemble(src, rto)
    argv = []
    if d.kind == "exe":
        argv += ["--dynamic-linker=/lib64/ld-linux-x86-64.so.2"]
    elif d.kind == "pie":
        argv += ["-pie", "--dynamic-linker=/lib64/ld-linux-x86-64.so.2"]
    else:
        argv += ["-shared"]
    argv += [f"--hash-style={d.hash_style}"]
    if d.export_dynamic:
        argv.append("--export-dynamic")
    argv += [rto] + objs + libs
    return argv


def wrap_inputs(rng, objs, workdir):
    """Distributes objects (first one stays plain) over plain files, archives, thin archives and
    linker scripts. Returns the argument list."""
    first, rest = objs[0], list(objs[1:])
    argv = [first]
    n = 0
    while rest:
        k = rng.randint(1, min(4, len(rest)))
        chunk, rest = rest[:k], rest[k:]
        how = rng.choice(["plain", "archive", "thin", "script_input", "script_group"])
        n += 1
        if how == "plain":
            argv += chunk
        elif how in ("archive", "script_group"):
            a = os.path.join(workdir, f"lib_w{n}.a")
            rc, o, e = run_cmd(["ar", "rcs", a] + chunk)
            if rc != 0:
                raise HarnessError(f"ar failed: {e}")
            if how == "archive":
                argv += ["--whole-archive", a, "--no-whole-archive"] if rng.random() < 0.3 else [a]
            else:
                s = os.path.join(workdir, f"w{n}.ld")
                with open(s, "w") as f:
                    f.write(f"GROUP({a})\n")
                argv.append(s)
        elif how == "thin":
            a = os.path.join(workdir, f"lib_t{n}.a")
            rc, o, e = run_cmd(["ar", "rcsT", a] + chunk)
            if rc != 0:
                raise HarnessError(f"ar T failed: {e}")
            argv.append(a)
        else:
            s = os.path.join(workdir, f"w{n}.ld")
            with open(s, "w") as f:
                f.write("INPUT(" + " ".join(chunk) + ")\n")
            argv.append(s)
    return argv
