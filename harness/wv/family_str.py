"""The string-merge workload family: feeds C07 (every referenced string preserved), C40 (merge
protocol terminates and hands every input to every bucket in order), C23."""
import os
import struct

from . import gen_str
from .common import (EXIT_DEADLOCK, EXIT_INVARIANT, EXIT_STEP_BUDGET, Plan, STRATEGIES,
                     check_sim_health, rm_rf, rng_for, scratch_dir, sim_link)
from .elf import Elf
from .family_graph import ALLOC_ERR
from .trace import validate_sm_trace

NOT_TERMINATED = "not null-terminated"


def run_job(job):
    seed, index = job["seed"], job["index"]
    rng = rng_for("str", seed, index)
    size = job.get("size") or rng.choice(["small", "small", "medium", "large"] if job["tier"] == "thorough"
                                         else ["small", "small", "medium"])
    w = gen_str.generate(rng, size)
    workdir = scratch_dir(f"s{index}")
    res = {"violations": [], "counters": {}, "distinct": [], "samples": [], "runs": 0,
           "steps": 0, "switches": 0}
    c = res["counters"]
    try:
        objs = gen_str.emit(w, workdir)
        total = gen_str.total_bytes(w)
        distinct = gen_str.distinct_strings(w)
        sched_rng = rng_for("str-sched", seed, index)
        only = job.get("only_schedule")
        for s in range(job["schedules"]):
            threads = sched_rng.choice([2, 2, 3, 4, 8])
            min_group = sched_rng.choice([256, 256, 512, 1024, 4096, 16384, 140000])
            split_par = sched_rng.choice(["_", "_", 1, 2, 3, 8, 24])
            strategy = sched_rng.choice(STRATEGIES)
            pseed = sched_rng.getrandbits(48)
            fpg = sched_rng.choice([None, 1, 2])
            # Bound the number of input groups (each is 16 bucket hand-offs): several MiB of strings
            # cut into 256-byte groups is millions of scheduler steps, close to the step budget.
            from .family_graph import _stall_faults
            faults = _stall_faults(rng_for("str-stall", seed, index, s), "str")
            while total / min_group > 4000 and min_group < 140000:
                min_group = {256: 512, 512: 1024, 1024: 4096, 4096: 16384, 16384: 140000}[min_group]
            if only is not None and s != only:
                continue
            plan = Plan(pseed, strategy, faults=faults, log_level=1)
            if job.get("decisions") is not None:
                dpath = os.path.join(workdir, f"decisions_in_{s}.txt")
                with open(dpath, "w") as fh:
                    fh.write("\n".join(str(x) for x in job["decisions"]) + "\n")
                plan = Plan(pseed, "replay", faults=faults, log_level=1, decisions_in=dpath, base_strategy=strategy)
            out = os.path.join(workdir, f"out{s}")
            argv = ["-o", out, "-static", "--no-fork", f"--threads={threads}",
                    f"--wild-experiments={split_par},{min_group}"] + objs
            env = {"WILD_FILES_PER_GROUP": str(fpg) if fpg else None}
            r = sim_link(argv, workdir, plan, tag=f"s{s}", env_extra=env)
            check_sim_health(r, f"str job {index} schedule {s}")
            if job.get("want_decisions"):
                try:
                    with open(r.decisions_path) as fh:
                        res["decisions"] = [int(x) for x in fh.read().split()]
                except FileNotFoundError:
                    res["decisions"] = []
            res["runs"] += 1
            res.setdefault("trace", []).append((s, r.status, r.steps, r.trace_hash))
            res["steps"] += r.steps
            res["switches"] += int(r.summary.get("switches", 0))
            c[f"threads_{threads}"] = c.get(f"threads_{threads}", 0) + 1
            if faults:
                c["fault_configured_stall"] = c.get("fault_configured_stall", 0) + len(faults)
                c["fault_fired_stall"] = c.get("fault_fired_stall", 0) + \
                    sum(1 for f in r.summary.get("faults_fired", []) if "Stall" in f)
            c[f"min_group_{min_group}"] = c.get(f"min_group_{min_group}", 0) + 1
            c[f"strategy_{strategy.split(':')[0]}"] = c.get(f"strategy_{strategy.split(':')[0]}", 0) + 1
            if int(r.summary.get("switches", 0)) > 0:
                res["distinct"].append(f"{index}:{r.trace_hash}")
            desc = {"family": "str",
                    "job": {k: job[k] for k in ("seed", "index", "tier", "schedules", "size")
                            if k in job} | {"only_schedule": s},
                    "params": w.params, "string_bytes": total,
                    "argv": [a if not a.startswith("/") else os.path.basename(a) for a in argv],
                    "env": env, "plan": plan.to_json()}
            if len(res["samples"]) < 1:
                res["samples"].append(desc)

            def viol(prop, clause, signature, detail):
                res["violations"].append({"prop": prop, "clause": clause, "signature": signature,
                                          "detail": detail, "replay": desc})

            err = r.err_text()
            if r.status == EXIT_DEADLOCK:
                viol("C40", "termination", "str/deadlock", f"deadlock: {err[-400:]}")
                continue
            if r.status == EXIT_STEP_BUDGET:
                viol("C40", "termination", "str/step-budget", "step budget exceeded")
                continue
            if r.status == EXIT_INVARIANT:
                which = "C40" if "C40" in err else "C39"
                viol(which, "in-run-invariant", "str/invariant", err[-400:])
                continue
            events = r.events()
            problems, probes = validate_sm_trace(events)
            for k, v in probes.items():
                c["probe_" + k] = c.get("probe_" + k, 0) + v
            if problems:
                viol("C40", "trace", "str/trace", "; ".join(problems[:5]))
            if w.unterminated:
                c["unterminated_runs"] = c.get("unterminated_runs", 0) + 1
                if r.status == 0:
                    viol("C07", "unterminated-accepted", "str/unterminated-accepted",
                         "link of an unterminated merge-string section succeeded")
                elif NOT_TERMINATED not in err:
                    viol("C07", "unterminated-diagnostic", "str/unterminated-diagnostic",
                         f"status {r.status}: {err[-300:]}")
                continue
            if r.status != 0:
                if any(m in err for m in ALLOC_ERR):
                    viol("C23", "size-accounting", "str/alloc-error", err[-400:])
                    viol("C07", "link-failed", "str/link-failed-alloc",
                         f"status {r.status}: {err[-400:]}")
                else:
                    viol("C07", "link-failed", "str/link-failed", f"status {r.status}: {err[-400:]}")
                continue
            try:
                elf = Elf(out)
            except Exception as e:  # noqa: BLE001
                viol("C07", "output-unreadable", "str/output-unreadable", str(e))
                continue
            syms = elf.symbols_by_name()
            bad = []
            nptr = 0
            for o in range(w.nobj):
                sym = syms.get(f"ptrs{o}")
                if sym is None:
                    bad.append(f"ptrs{o} missing")
                    continue
                table = elf.read_vaddr(sym.value, 8 * len(w.pointers[o]))
                for pi, ptr in enumerate(w.pointers[o]):
                    nptr += 1
                    addr, = struct.unpack_from("<Q", table, pi * 8)
                    want = gen_str.expected(w, o, ptr)
                    got = elf.read_vaddr(addr, len(want))
                    if got != want:
                        bad.append(f"ptrs{o}[{pi}] {ptr}: at {addr:#x} found "
                                   f"{(got or b'')[:24]!r} want {want[:24]!r}")
            c["pointers_checked"] = c.get("pointers_checked", 0) + nptr
            if bad:
                viol("C07", "pointer", "str/pointer", f"{len(bad)} wrong: {bad[:4]}")
            for secname, strs in sorted(gen_str.distinct_strings(w, by_output_section=True).items()):
                ro = elf.section(secname)
                blob = elf.section_data(ro) if ro is not None else b""
                lost = [d for d in sorted(strs) if d not in blob]
                c[f"outsec_{secname.strip('.')}"] = c.get(f"outsec_{secname.strip('.')}", 0) + 1
                if lost:
                    viol("C07", "string-missing", "str/string-missing",
                         f"{len(lost)} distinct strings not in {secname}, e.g. {lost[0][:30]!r}")
            try:
                os.unlink(out)
            except FileNotFoundError:
                pass
    finally:
        if not job.get("keep"):
            rm_rf(workdir)
    return res
