"""Command-line entry: python3 -m wv check <ID> <tier> | replay <file> | selftest <what>"""
import json
import os
import sys
import traceback

from . import common
from .common import Evidence, HarnessError, Violation


def seed_from_env():
    try:
        return int(os.environ.get("VERIF_SEED", "1"))
    except ValueError:
        return 1


def main(argv):
    if len(argv) < 2:
        print("usage: wv check <ID> <quick|thorough> | replay <file> | selftest determinism")
        return 2
    try:
        if argv[1] == "check":
            prop = argv[2]
            tier = argv[3] if len(argv) > 3 else os.environ.get("VERIF_TIER", "quick")
            from . import checks
            return checks.run(prop, tier, seed_from_env())
        if argv[1] == "replay":
            from . import checks
            return checks.replay(argv[2])
        if argv[1] == "selftest":
            from . import selftest
            return selftest.run(argv[2] if len(argv) > 2 else "determinism",
                                argv[3] if len(argv) > 3 else "quick", seed_from_env())
        print(f"unknown command {argv[1]}")
        return 2
    except HarnessError as e:
        print(f"HARNESS-ERROR: {e}")
        return 2
    except Exception:  # noqa: BLE001
        traceback.print_exc()
        print("HARNESS-ERROR: unexpected exception in the harness")
        return 2


if __name__ == "__main__":
    sys.exit(main(sys.argv))
