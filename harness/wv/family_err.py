"""Diagnostics family (C26): failing (or warning-only) links with several independent problems;
exit status, error text and the set of warning lines must not depend on thread count or schedule."""
import os

from .common import (EXIT_DEADLOCK, EXIT_INVARIANT, EXIT_STEP_BUDGET, Plan, STRATEGIES, assemble,
                     check_sim_health, rm_rf, rng_for, scratch_dir, sim_link)

KINDS = ["undef", "dup", "overflow", "mixed", "warn", "dupmany", "assert", "undefmany"]


def gen_class(rng, workdir, index):
    kind = KINDS[index % len(KINDS)]
    nobj = rng.randint(3, 9)
    k = rng.randint(2, 6)
    srcs = [[] for _ in range(nobj)]
    extra_args = []
    for o in range(nobj):
        srcs[o].append(f'\t.section .text.ok{o},"ax",@progbits')
        srcs[o].append(f"\t.globl ok{o}")
        srcs[o].append(f"ok{o}:\tret")
    rt = ['\t.section .text._start,"ax",@progbits', "\t.globl _start", "_start:"]
    for o in range(nobj):
        rt.append(f"\tcall ok{o}")
    where = rng.sample(range(nobj), min(k, nobj))
    if kind in ("dupmany", "undefmany"):
        # Many errors of one kind: exposes caps/truncation applied in arrival order.
        n = rng.randint(20, 70)
        for j in range(n):
            if kind == "dupmany":
                a, b = rng.sample(range(nobj), 2)
                for o in (a, b):
                    srcs[o].append(f'\t.section .text.dm{j},"ax",@progbits')
                    srcs[o].append(f"\t.globl dupm_{j:04d}")
                    srcs[o].append(f"dupm_{j:04d}:\tret")
                rt.append(f"\tcall dupm_{j:04d}")
            else:
                o = rng.randrange(nobj)
                srcs[o].append(f'\t.section .text.um{j},"ax",@progbits')
                srcs[o].append(f"\t.globl usrm{j}")
                srcs[o].append(f"usrm{j}:\tcall undefm_{j:04d}")
                srcs[o].append("\tret")
                rt.append(f"\tcall usrm{j}")
    if kind in ("undef", "mixed", "warn"):
        for j, o in enumerate(where):
            srcs[o].append(f'\t.section .text.u{j},"ax",@progbits')
            srcs[o].append(f"\t.globl usr{j}")
            srcs[o].append(f"usr{j}:\tcall undef_{chr(97 + j)}")
            srcs[o].append("\tret")
            rt.append(f"\tcall usr{j}")
        if kind == "warn":
            extra_args.append("--warn-unresolved-symbols")
    if kind in ("dup", "mixed"):
        for j in range(rng.randint(1, 3)):
            a, b = rng.sample(range(nobj), 2)
            for o in (a, b):
                srcs[o].append(f'\t.section .text.dup{j},"ax",@progbits')
                srcs[o].append(f"\t.globl dup_{j}")
                srcs[o].append(f"dup_{j}:\tret")
            rt.append(f"\tcall dup_{j}")
    if kind in ("overflow", "mixed"):
        extra_args.append("--defsym=far_away=0x7fffffff0000")
        for j, o in enumerate(where):
            srcs[o].append(f'\t.section .text.far{j},"ax",@progbits')
            srcs[o].append(f"\t.globl farc{j}")
            srcs[o].append(f"farc{j}:\tcall far_away")
            srcs[o].append("\tret")
            rt.append(f"\tcall farc{j}")
    if kind == "assert":
        script = os.path.join(workdir, "asserts.ld")
        with open(script, "w") as f:
            for j in range(k):
                f.write(f'ASSERT({j} > 100, "assertion number {j} failed");\n')
        extra_args.append(script)
    rt += ["\tmovl $231, %eax", "\txorl %edi, %edi", "\tsyscall"]
    objs = []
    for o in range(nobj):
        srcs[o].append('\t.section .note.GNU-stack,"",@progbits')
        p = os.path.join(workdir, f"e{o}.s")
        with open(p, "w") as f:
            f.write("\n".join(srcs[o]) + "\n")
        obj = os.path.join(workdir, f"e{o}.o")
        assemble(p, obj)
        objs.append(obj)
    rt.append('\t.section .note.GNU-stack,"",@progbits')
    p = os.path.join(workdir, "rt.s")
    with open(p, "w") as f:
        f.write("\n".join(rt) + "\n")
    rto = os.path.join(workdir, "rt.o")
    assemble(p, rto)
    argv = ["-static"] + extra_args + [rto] + objs
    return kind, argv, {"kind": kind, "nobj": nobj, "k": k}


def _strip_ids(text):
    import re
    text = re.sub(r"file #\d+ \(\d+/\d+\)", "file", text)
    return re.sub(r" \(\d+ \(\d+/\d+\)\)", "", text)


def split_diag(text):
    """Splits stderr into (error text, set of warning blocks). A diagnostic block is a line starting
    with `wild: ` plus the indented/continuation lines that follow it."""
    blocks = []
    for line in text.splitlines():
        if line.startswith("simrt:"):
            continue
        if line.startswith("wild: ") or not blocks:
            blocks.append([line])
        else:
            blocks[-1].append(line)
    warnings = set()
    rest = []
    for b in blocks:
        joined = "\n".join(b)
        if b[0].lower().startswith("wild: warning"):
            warnings.add(joined)
        else:
            rest.append(joined)
    return "\n".join(rest), warnings


def run_job(job):
    seed, index = job["seed"], job["index"]
    rng = rng_for("err", seed, index)
    workdir = scratch_dir(f"e{index}")
    res = {"violations": [], "counters": {}, "distinct": [], "samples": [], "runs": 0,
           "steps": 0, "switches": 0}
    c = res["counters"]
    try:
        kind, base, info = gen_class(rng, workdir, index)
        c[f"class_{kind}"] = 1
        # Held fixed within a class: partitioning knobs and the hash seed.
        fpg = rng.choice([None, 1, 1, 2])
        hash_seed = rng.getrandbits(60)
        vr = rng_for("err-var", seed, index)
        ref = None
        ref_desc = None
        outcomes = set()
        only = job.get("only_variants")
        for v in range(job["schedules"]):
            threads = vr.choice([1, 2, 2, 3, 4, 8])
            strategy = vr.choice(STRATEGIES)
            pseed = vr.getrandbits(48)
            if only is not None and v not in only:
                continue
            out = os.path.join(workdir, "out")
            try:
                os.unlink(out)
            except FileNotFoundError:
                pass
            argv = ["-o", out] + base + [f"--threads={threads}", "--no-fork"]
            env = {"WILD_FILES_PER_GROUP": str(fpg) if fpg else None}
            plan = Plan(pseed, strategy, log_level=1, hash_seed=hash_seed)
            r = sim_link(argv, workdir, plan, tag=f"v{v}", env_extra=env)
            check_sim_health(r, f"err job {index} variant {v}")
            res["runs"] += 1
            res.setdefault("trace", []).append((v, r.status, r.steps, r.trace_hash))
            res["steps"] += r.steps
            res["switches"] += int(r.summary.get("switches", 0))
            c[f"threads_{threads}"] = c.get(f"threads_{threads}", 0) + 1
            if int(r.summary.get("switches", 0)) > 0:
                res["distinct"].append(f"{index}:{r.trace_hash}")
            desc = {"family": "err",
                    "job": {k: job[k] for k in ("seed", "index", "tier", "schedules") if k in job},
                    "info": info, "variant": v,
                    "argv": [a if not a.startswith("/") else os.path.basename(a) for a in argv],
                    "env": env, "plan": plan.to_json()}
            if not res["samples"]:
                res["samples"].append(desc)
            if r.status in (EXIT_DEADLOCK, EXIT_STEP_BUDGET, EXIT_INVARIANT):
                continue  # reported by C39/C40
            err, warnings = split_diag(r.err_text())
            outcome = (r.status, err, tuple(sorted(warnings)))
            outcomes.add(outcome)
            if ref is None:
                ref = outcome
                ref_desc = desc
                c["status_zero" if r.status == 0 else "status_nonzero"] = \
                    c.get("status_zero" if r.status == 0 else "status_nonzero", 0) + 1
                continue
            if outcome != ref:
                if outcome[0] != ref[0]:
                    clause, what = "status", f"exit status {outcome[0]} vs {ref[0]}"
                elif outcome[1] != ref[1]:
                    clause = "error-text"
                    if _strip_ids(outcome[1]) == _strip_ids(ref[1]):
                        # Same diagnostic apart from wild's internal file ids "(N (group/file))",
                        # which follow the thread-count-dependent grouping.
                        clause = "error-text-internal-file-id"
                    what = f"error text differs: {outcome[1][:200]!r} vs {ref[1][:200]!r}"
                else:
                    clause = "warning-set"
                    what = (f"warning set differs: {sorted(set(outcome[2]) ^ set(ref[2]))[:3]}")
                d2 = dict(desc)
                d2["job"] = dict(desc["job"])
                d2["job"]["only_variants"] = [ref_desc["variant"], v]
                res["violations"].append({
                    "prop": "C26", "clause": clause, "signature": f"err/{clause}/{kind}",
                    "detail": f"variant {v} (threads/strategy {desc['argv'][-2]}, {strategy}) vs "
                              f"variant {ref_desc['variant']}: {what}", "replay": d2})
        c["distinct_outcomes_max"] = max(c.get("distinct_outcomes_max", 0), len(outcomes))
    finally:
        if not job.get("keep"):
            rm_rf(workdir)
    return res
