"""Process/file-system family (procsim): one link inside a prepared directory history, possibly
with one injected fault. Feeds C17 (exit status vs output), C18 (failed link leaves no output of
its own), C19 (only declared outputs are touched)."""
import hashlib
import os
import shutil
import signal
import stat
import subprocess
import time

from . import gen_graph
from .common import (EXIT_DEADLOCK, EXIT_INVARIANT, EXIT_STEP_BUDGET, HarnessError, Plan,
                     STRATEGIES, assemble, check_sim_health, rm_rf, rng_for, scratch_dir, sim_link)

SIMSYS = os.path.join(os.path.dirname(os.path.dirname(os.path.dirname(os.path.abspath(__file__)))),
                      "target", "libsimsys.so")

# Errors each interposed call can realistically return (sim/simsys/simsys.c); "short:N" = short write.
SYS_ERRNOS = {
    "open": ["EMFILE", "ENOSPC", "EACCES", "EIO", "ETXTBSY", "EINTR", "ENOMEM"],
    "ftruncate": ["ENOSPC", "EIO", "EINVAL"],
    "mmap": ["ENOMEM", "ENODEV", "EAGAIN"],
    "rename": ["EACCES", "EBUSY", "ENOSPC", "EXDEV"],
    "unlink": ["EACCES", "EBUSY", "EIO"],
    "write": ["ENOSPC", "EIO", "EINTR", "short:1", "short:100", "short:4096", "EDQUOT"],
    "fchmod": ["EPERM", "EIO"],
    "statx": ["EIO", "ESTALE", "ENOMEM"],
    "close": ["EIO"],
    "fork": ["EAGAIN", "ENOMEM"],
    "pipe": ["EMFILE"],
}


def read_syslog(path):
    """Returns ({call: max count over processes}, [fired lines])."""
    counts, fired = {}, []
    try:
        with open(path) as f:
            for line in f:
                p = line.split()
                if len(p) >= 4 and p[0] == "count":
                    counts[p[2]] = max(counts.get(p[2], 0), int(p[3]))
                elif p and p[0] == "fired":
                    fired.append(" ".join(p[2:5]))
    except FileNotFoundError:
        pass
    return counts, fired


ERR_SITES = ["after_open", "after_symbol_db", "after_resolution", "after_alternatives",
             "after_section_resolution", "after_set_size", "after_layout", "after_write"]
PHASE_SITES = ERR_SITES + ["write_start", "write_body_done", "write_flushed", "write_unmapped",
                           "before_verify", "after_verify", "after_depfile"]
FORK_ONLY_SITES = ["before_inform_parent", "after_inform_parent"]
CRASH_KINDS = ["panic", "abort", "alloc", "segv", "kill"]


def snapshot(d):
    snap = {}
    for root, dirs, files in os.walk(d):
        for name in dirs + files:
            p = os.path.join(root, name)
            rel = os.path.relpath(p, d)
            try:
                st = os.lstat(p)
            except FileNotFoundError:
                continue
            if stat.S_ISREG(st.st_mode):
                with open(p, "rb") as f:
                    h = hashlib.sha256(f.read()).hexdigest()[:16]
                snap[rel] = ("f", stat.S_IMODE(st.st_mode), st.st_size, st.st_ino, st.st_mtime_ns, h)
            elif stat.S_ISDIR(st.st_mode):
                snap[rel] = ("d", stat.S_IMODE(st.st_mode))
            else:
                snap[rel] = ("o", stat.S_IMODE(st.st_mode))
    return snap


def make_workload(rng, d, kind):
    """Writes the inputs into d; returns (argv_inputs, extra_args)."""
    if kind == "ok":
        g = gen_graph.generate(rng, "small")
        g.term_after = None
        objs = gen_graph.emit(g, d)
        for f in os.listdir(d):
            if f.endswith(".s"):
                os.unlink(os.path.join(d, f))
        return [os.path.basename(o) for o in objs], ["-static", "--gc-sections"] + \
            [f"--undefined={g.nodes[i].name}" for i in g.undefined_force]
    srcs = {}
    extra = ["-static"]
    n = rng.randint(2, 5)
    rt = ['\t.section .text._start,"ax",@progbits', "\t.globl _start", "_start:"]
    for o in range(n):
        srcs[o] = [f'\t.section .text.ok{o},"ax",@progbits', f"\t.globl ok{o}", f"ok{o}:\tret"]
        rt.append(f"\tcall ok{o}")
    bad = rng.randrange(n)
    if kind == "overflow":
        extra.append("--defsym=far_away=0x7fffffff0000")
        srcs[bad] += ['\t.section .text.far,"ax",@progbits', "\t.globl farc", "farc:\tcall far_away",
                      "\tret"]
        rt.append("\tcall farc")
    elif kind == "undef":
        srcs[bad] += ['\t.section .text.un,"ax",@progbits', "\t.globl unc", "unc:\tcall not_defined",
                      "\tret"]
        rt.append("\tcall unc")
    elif kind == "assert":
        with open(os.path.join(d, "chk.ld"), "w") as f:
            f.write('ASSERT(1 > 100, "always fails");\n')
        extra.append("chk.ld")
    rt += ["\tmovl $231, %eax", "\txorl %edi, %edi", "\tsyscall",
           '\t.section .note.GNU-stack,"",@progbits']
    names = []
    for o in range(n):
        srcs[o].append('\t.section .note.GNU-stack,"",@progbits')
        p = os.path.join(d, f"e{o}.s")
        with open(p, "w") as f:
            f.write("\n".join(srcs[o]) + "\n")
        assemble(p, os.path.join(d, f"e{o}.o"))
        os.unlink(p)
        names.append(f"e{o}.o")
    p = os.path.join(d, "rt.s")
    with open(p, "w") as f:
        f.write("\n".join(rt) + "\n")
    assemble(p, os.path.join(d, "rt.o"))
    os.unlink(p)
    return ["rt.o"] + names, extra


def stem_of(name):
    # mirrors Path::with_extension: replaces the last extension (if any) of the file name
    if name.startswith(".") and name.count(".") == 1:
        return name
    return name.rsplit(".", 1)[0] if "." in name[1:] else name


def draw_scenario(rng, prop, index, tier):
    sc = {}
    if prop == "C17":
        sc["kind"] = "ok"
    elif prop == "C18":
        sc["kind"] = ["overflow", "assert", "undef", "ok"][index % 4]
    else:
        sc["kind"] = rng.choice(["ok", "ok", "ok", "overflow", "undef", "assert"])
    sc["out"] = rng.choice(["prog", "libfoo.so", "a.b.c", "noext", ".hidden", "prog.exe"])
    sc["prior"] = rng.choice(["absent", "good", "unrelated", "busy", "good"])
    sc["siblings"] = rng.random() < (0.8 if prop == "C19" else 0.3)
    sc["mode"] = rng.choice([None, None, "--update-in-place", "--no-update-in-place"])
    sc["mmap"] = rng.choice([None, None, "--no-mmap-output-file"])
    sc["threads"] = rng.choice([1, 2, 2, 4])
    sc["fork"] = rng.random() < 0.5
    sc["depfile"] = rng.random() < 0.3
    sc["layout"] = rng.random() < 0.2
    sc["strategy"] = rng.choice(STRATEGIES)
    sc["pseed"] = rng.getrandbits(48)
    sc["fault"] = None
    sc["fsize"] = None
    return sc


def declared_outputs(sc):
    out = {sc["out"]}
    if sc.get("prior") == "symlink" and sc["threads"] > 1 and sc["mode"] != "--no-update-in-place":
        # In-place modes open the path, i.e. write through the link (as GNU ld does); every other
        # mode replaces the link itself and must leave its target alone.
        out.add(sc["out"] + ".real")
    if sc["depfile"]:
        out.add("deps.d")
    if sc["layout"]:
        out.add(sc["out"] + ".layout")
    return out


SIBLING_TEXT = b"precious sibling file - must not be touched\n"


def prepare_dir(sc, d, rng, inputs, extra, ref_out):
    """Creates prior output state and siblings. Returns a cleanup list of processes."""
    procs = []
    out = os.path.join(d, sc["out"])
    past = time.time() - 1000
    if sc["prior"] == "good" and ref_out:
        shutil.copyfile(ref_out, out)
        os.chmod(out, 0o755)
        os.utime(out, (past, past))
    elif sc["prior"] == "unrelated":
        with open(out, "wb") as f:
            f.write(b"#!/bin/sh\necho this is an unrelated file\n" * rng.randint(1, 400))
        os.chmod(out, 0o644)
        os.utime(out, (past, past))
    elif sc["prior"] == "longer":
        with open(out, "wb") as f:
            f.write(b"previous, longer file at the output path\n" * 2000)
        os.chmod(out, 0o755)
        os.utime(out, (past, past))
    elif sc["prior"] == "symlink":
        # The output path is a symbolic link to another file in the directory (libfoo.so ->
        # libfoo.so.real, "the previous release").
        real = out + ".real"
        if ref_out and rng.random() < 0.5:
            shutil.copyfile(ref_out, real)
        else:
            with open(real, "wb") as f:
                f.write(b"previous release - the link target\n" * rng.randint(1, 300))
        os.chmod(real, 0o755)
        os.utime(real, (past, past))
        os.symlink(os.path.basename(real), out)
    elif sc["prior"] == "busy":
        shutil.copyfile("/bin/sleep", out)
        os.chmod(out, 0o755)
        os.utime(out, (past, past))
        procs.append(subprocess.Popen([out, "600"], stdout=subprocess.DEVNULL,
                                      stderr=subprocess.DEVNULL))
        time.sleep(0.02)
    if sc["siblings"]:
        stem = stem_of(sc["out"])
        names = {f"{stem}.delete", f"{stem}.o.bak", f"{sc['out']}.layout.keep", f"{stem}.d",
                 f"{sc['out']}x", f"{stem}.tmp", f"{sc['out']}.delete", "deps.d.old"}
        if not sc["layout"]:
            names.add(sc["out"] + ".layout")
        names -= declared_outputs(sc)
        names -= set(inputs)
        for nm in sorted(names):
            p = os.path.join(d, nm)
            if os.path.exists(p):
                continue
            with open(p, "wb") as f:
                f.write(SIBLING_TEXT + nm.encode())
            os.utime(p, (past, past))
    return procs


def link_argv(sc, inputs, extra):
    argv = ["-o", sc["out"]] + extra + inputs + [f"--threads={sc['threads']}"]
    if not sc["fork"]:
        argv.append("--no-fork")
    if sc["mode"]:
        argv.append(sc["mode"])
    if sc["mmap"]:
        argv.append(sc["mmap"])
    if sc["depfile"]:
        argv.append("--dependency-file=deps.d")
    if sc["layout"]:
        argv.append("--write-layout")
    return argv


class Workload:
    """Inputs + fault-free reference output, built once per job and copied per scenario."""

    def __init__(self, seed, index, kind, out_name):
        self.root = scratch_dir(f"f{index}")
        self.kind = kind
        self.template = os.path.join(self.root, "template")
        self.ctl = os.path.join(self.root, "ctl")
        os.makedirs(self.template)
        os.makedirs(self.ctl)
        wrng = rng_for("fs-wl", seed, index)
        self.inputs, self.extra = make_workload(wrng, self.template, kind)
        self.ref_out = None
        self.n = 0
        if kind == "ok":
            refdir = os.path.join(self.root, "ref")
            shutil.copytree(self.template, refdir)
            sc_ref = {"out": out_name, "threads": 2, "fork": False, "mode": None, "mmap": None,
                      "depfile": False, "layout": False}
            r0 = sim_link(link_argv(sc_ref, self.inputs, self.extra), refdir, Plan(1, "rr"),
                          tag="ref", ctl_dir=self.ctl)
            check_sim_health(r0, "fs reference link")
            if r0.status != 0:
                raise HarnessError(f"fs reference link failed: {r0.err_text()[-300:]}")
            self.ref_out = os.path.join(refdir, out_name)

    def close(self):
        rm_rf(self.root)


def run_scenario(sc, seed, index, wl, keep=False):
    """Runs one scenario. Returns dict(status, violations=[(prop, clause, signature, detail)], ...)."""
    wl.n += 1
    root = wl.root
    d = os.path.join(root, f"d{wl.n}")
    ctl = wl.ctl
    shutil.copytree(wl.template, d)
    res = {"violations": [], "info": {}}
    procs = []
    inputs, extra, ref_out = wl.inputs, wl.extra, wl.ref_out
    try:
        procs = prepare_dir(sc, d, rng_for("fs-prior", seed, index, wl.n), inputs, extra, ref_out)
        before = snapshot(d)
        plan = Plan(sc["pseed"], sc["strategy"], faults=[sc["fault"]] if sc["fault"] else [])
        if sc.get("decisions") is not None:
            # replay of a recorded (possibly minimised) decision list
            dpath = os.path.join(ctl, f"decisions_in_{wl.n}.txt")
            with open(dpath, "w") as fh:
                fh.write("\n".join(str(x) for x in sc["decisions"]) + "\n")
            plan = Plan(sc["pseed"], "replay", faults=[sc["fault"]] if sc["fault"] else [],
                        decisions_in=dpath, base_strategy=sc["strategy"])
        preexec = None
        if sc.get("fsize"):
            limit = int(sc["fsize"])

            def preexec():
                # "disk full": writes beyond the limit fail with EFBIG (SIGXFSZ ignored)
                import resource
                signal.signal(signal.SIGXFSZ, signal.SIG_IGN)
                resource.setrlimit(resource.RLIMIT_FSIZE, (limit, limit))
        env_extra = None
        syslog = os.path.join(ctl, f"sys{wl.n}.log")
        if sc.get("sysfault") is not None:
            # system-call fault seam (sim/simsys): "" = profile only (count calls), else the rules
            env_extra = {"LD_PRELOAD": SIMSYS, "WILD_SIM_SYSFAULT_LOG": syslog,
                         "WILD_SIM_SYSFAULT": sc["sysfault"] or None}
        if sc.get("sigchld_ign"):
            # History: wild is started by a process that ignores SIGCHLD (inherited across exec): the
            # kernel reaps the forked worker by itself and the parent's waitpid() fails with ECHILD.
            inner = preexec

            def preexec():  # noqa: F811
                if inner:
                    inner()
                signal.signal(signal.SIGCHLD, signal.SIG_IGN)
        r = sim_link(link_argv(sc, inputs, extra), d, plan, tag="run", ctl_dir=ctl, preexec=preexec,
                     env_extra=env_extra)
        check_sim_health(r, f"fs scenario {index} {sc}")
        if sc.get("sysfault") is not None:
            res["sys_counts"], res["sys_fired"] = read_syslog(syslog)
            try:
                os.unlink(syslog)
            except FileNotFoundError:
                pass
        for p in procs:
            p.kill()
            p.wait()
        procs = []
        after = snapshot(d)
        res["status"] = r.status
        try:
            with open(r.decisions_path) as fh:
                res["decisions"] = [int(x) for x in fh.read().split()]
        except (FileNotFoundError, ValueError):
            res["decisions"] = []
        res["steps"] = r.steps
        res["switches"] = int(r.summary.get("switches", 0))
        res["trace_hash"] = r.trace_hash
        res["fault_fired"] = r.summary.get("faults_fired", [])
        res["sim_result"] = r.summary.get("result", "")
        res["err"] = r.err_text()[-300:]
        events = r.events()
        kinds = set(e[2] for e in events)
        res["creator_ran"] = "fw_creator_start" in kinds
        res["created"] = "fw_created" in kinds
        res["renamed"] = any(e[2] == "fw_renamed" and e[3] == 1 for e in events)
        res["delete_ran"] = "fw_delete_old" in kinds
        if r.status in (EXIT_DEADLOCK, EXIT_STEP_BUDGET, EXIT_INVARIANT):
            res["sim_abort"] = True
            return res
        out = sc["out"]
        declared = declared_outputs(sc)
        crash_fault = bool(sc["fault"]) and sc["fault"].split("@")[0] in ("abort", "alloc", "segv",
                                                                           "kill", "panic")

        def viol(prop, clause, signature, detail):
            res["violations"].append((prop, clause, signature, detail))

        # ---- C17 ----
        if r.status == 0 and sc["kind"] == "ok":
            a = after.get(out)
            if a is not None and a[0] != "f":
                a = None if not os.path.exists(os.path.join(d, out)) else \
                    ("f", os.stat(os.path.join(d, out)).st_mode & 0o7777, 0, 0, 0,
                     hashlib.sha256(open(os.path.join(d, out), "rb").read()).hexdigest()[:16])
            if a is None:
                viol("C17", "status0-no-output", _c17_sig(sc, res, "no-output"),
                     "exit status 0 but no output file")
            else:
                ref_h = hashlib.sha256(open(ref_out, "rb").read()).hexdigest()[:16]
                if a[5] != ref_h:
                    viol("C17", "status0-wrong-output", _c17_sig(sc, res, "wrong-output"),
                         f"exit status 0 but output differs from the fault-free output "
                         f"(size {a[2]}, fault {sc['fault']}, fired {res['fault_fired']})")
                elif not (a[1] & 0o100) and not any(
                        k in (sc.get("sysfault") or "") for k in ("fchmod#", "statx#")):
                    viol("C17", "status0-not-executable", _c17_sig(sc, res, "not-executable"),
                         "exit status 0 but output is not executable")
        # Second sentence of the property: work that fails must not be reported as success. A fault
        # (error return, panic, abort, allocation failure, signal) that fired before the worker got
        # past reporting success to its parent (fork mode: no `after_inform_parent` phase was
        # reached; --no-fork: always) must give a non-zero status, even if the output file happens
        # to be complete already; so must any link on which wild printed an error.
        sim_fault_fired = bool(sc["fault"]) and bool(res["fault_fired"]) and \
            sc["fault"].split("@")[0] in ("err", "panic", "abort", "alloc", "segv", "kill")
        past_inform = "phase:after_inform_parent" in kinds
        if r.status == 0 and sim_fault_fired and not (sc["fork"] and past_inform):
            viol("C17", "status0-after-fault", _c17_sig(sc, res, "after-fault"),
                 f"exit status 0 although fault {sc['fault']} fired ({res['fault_fired']}) before the "
                 f"worker had reported success")
        if r.status == 0 and "wild: error" in r.err_text():
            viol("C17", "status0-with-error-message", _c17_sig(sc, res, "with-error-message"),
                 f"exit status 0 but wild reported an error: {res['err'][-200:]}")
        if r.status == 0 and sc["kind"] != "ok":
            viol("C17", "status0-failing-link", f"fs/status0/{sc['kind']}",
                 f"link that must fail ({sc['kind']}) exited 0")
        # ---- C18 ----
        if r.status != 0 and not crash_fault:
            b, a = before.get(out), after.get(out)
            if a is not None and a != b:
                how = "created" if b is None else "modified"
                viol("C18", "output-left-behind", _c18_sig(sc, how, res),
                     f"exit status {r.status} but output path was {how} by this link: before {b} "
                     f"after {a}; err: {res['err'][-160:]}")
            if a is None and b is not None:
                # The property allows "nothing is there" (GNU ld deletes its output on failure).
                res["info"]["prior_removed"] = True
        # ---- C19 ----
        for rel in sorted(set(before) | set(after)):
            if rel in declared:
                continue
            b, a = before.get(rel), after.get(rel)
            if b == a:
                continue
            if b is None:
                what = "created"
            elif a is None:
                what = "deleted"
            else:
                what = "modified"
            if crash_fault:
                continue  # a killed process cannot clean up; C19 speaks of running wild normally
            if what == "created" and "unlink#" in (sc.get("sysfault") or "") and \
                    _c19_sig(sc, rel, what) == "fs/created/<tmp-old-output>":
                # The injected failure *is* "the old output cannot be deleted": nobody could
                # remove it, so its hidden temporary name staying behind is not wild's doing.
                res["info"]["tmp_left_because_unlink_failed"] = True
                continue
            viol("C19", f"undeclared-{what}", _c19_sig(sc, rel, what),
                 f"{rel} was {what} (declared outputs: {sorted(declared)}); before {b} after {a}")
        return res
    finally:
        for p in procs:
            try:
                p.kill()
                p.wait()
            except Exception:  # noqa: BLE001
                pass
        if not keep:
            rm_rf(d)
        else:
            res["dir"] = d


def _fault_class(sc):
    if sc.get("sysfault"):
        # e.g. "open#3=EMFILE;write#1=short:100" -> "sys-open+write"
        return "sys-" + "+".join(sorted(set(r.split("#")[0] for r in sc["sysfault"].split(";"))))
    if not sc["fault"]:
        return "nofault"
    kind, trig = sc["fault"].split("@")[:2]
    site = trig.split("=", 1)[1].split(",")[0] if trig.startswith("site=") else "step"
    return f"{kind}@{site}"


def _c17_sig(sc, res, what):
    kind = sc["fault"].split("@")[0] if sc["fault"] else ("fsize-limit" if sc.get("fsize") else "nofault")
    if sc.get("sysfault"):
        kind = _fault_class(sc)
    return f"fs/status0-{what}/{'fork' if sc['fork'] else 'nofork'}/{kind}"


def _c18_sig(sc, how, res=None):
    # Which file creator the link uses decides *when* the output path is first touched (see
    # file_writer.rs Output::new): with one thread the file is created in the write stage, with more
    # a background task creates it as soon as the size is known. Part of the signature so that a
    # change that makes the single-threaded path touch the output early is not mistaken for the
    # known multi-threaded finding.
    creator = "regular-creator" if sc["threads"] == 1 else "background-creator"
    if sc.get("sysfault"):
        cls = "syscall-failure"
    elif sc.get("fsize") and not sc["fault"] and sc["kind"] == "ok":
        cls = "write-error-fsize-limit"
    else:
        cls = _fault_class(sc) if sc["fault"] else "genuine"
    return f"fs/output-{how}/{sc['kind']}/{cls}/{creator}"


def _c19_sig(sc, rel, what):
    out = sc["out"]
    stem = stem_of(out)
    import re
    if re.match(r"^\..*\.\d+\.wild-delete$", rel):
        name = "<tmp-old-output>"
    elif rel == f"{stem}.delete":
        name = "<stem>.delete"
    elif rel.startswith(out):
        name = "<out>" + rel[len(out):]
    elif rel.startswith(stem):
        name = "<stem>" + rel[len(stem):]
    else:
        name = "input-or-other"
    return f"fs/{what}/{name}"


def fault_grid(fork):
    grid = []
    for site in PHASE_SITES + (FORK_ONLY_SITES if fork else []):
        for k in CRASH_KINDS:
            grid.append(f"{k}@site={site}")
    for site in ERR_SITES:
        grid.append(f"err@site={site}")
    return grid


def run_job(job):
    """One job = one workload + a list of scenarios derived from the property's plan."""
    prop, seed, index, tier = job["prop"], job["seed"], job["index"], job["tier"]
    rng = rng_for("fs", prop, seed, index)
    base = draw_scenario(rng, prop, index, tier)
    res = {"violations": [], "counters": {}, "distinct": [], "samples": [], "runs": 0,
           "steps": 0, "switches": 0}
    c = res["counters"]
    scenarios = []
    if job.get("scenario"):
        scenarios = [job["scenario"]]
        base = job["scenario"]
    elif prop == "C17":
        base["fork"] = (index % 2 == 0)
        base["threads"] = [1, 2, 4][index % 3]
        base["siblings"] = False
        for gi, f in enumerate(fault_grid(base["fork"])):
            sc = dict(base, fault=f, strategy=rng.choice(STRATEGIES), pseed=rng.getrandbits(48),
                      prior=rng.choice(["absent", "good", "unrelated"]))
            if base["fork"] and gi % 3 == index % 3:
                sc["sigchld_ign"] = True
            scenarios.append(sc)
        for _ in range(job["schedules"]):
            k = rng.choice(CRASH_KINDS)
            sc = dict(base, fault=f"{k}@step={rng.randint(1, 900)}", strategy=rng.choice(STRATEGIES),
                      pseed=rng.getrandbits(48), prior=rng.choice(["absent", "good", "unrelated"]))
            scenarios.append(sc)
        scenarios.append(dict(base, fault=None))
        # write errors ("disk full"): file size limit below the output size, all write modes
        for _ in range(max(4, job["schedules"])):
            scenarios.append(dict(base, fault=None, fsize=rng.choice([512, 4096, 8192, 20000]),
                                  mmap=rng.choice([None, "--no-mmap-output-file"]),
                                  mode=rng.choice([None, "--update-in-place",
                                                   "--no-update-in-place"]),
                                  fork=rng.random() < 0.5, threads=rng.choice([1, 2, 4]),
                                  strategy=rng.choice(STRATEGIES), pseed=rng.getrandbits(48),
                                  prior=rng.choice(["absent", "good", "unrelated"])))
    elif prop == "C18":
        for _ in range(job["schedules"]):
            sc = dict(base, strategy=rng.choice(STRATEGIES), pseed=rng.getrandbits(48),
                      prior=rng.choice(["absent", "good", "unrelated", "busy"]),
                      mode=rng.choice([None, None, "--update-in-place", "--no-update-in-place"]),
                      mmap=rng.choice([None, "--no-mmap-output-file"]),
                      threads=rng.choice([1, 2, 4]), fork=rng.random() < 0.5)
            if base["kind"] == "ok":
                if rng.random() < 0.3:
                    sc["fsize"] = rng.choice([512, 4096, 8192, 20000])
                else:
                    sc["fault"] = f"err@site={rng.choice(ERR_SITES)}"
            scenarios.append(sc)
    else:  # C19
        for _ in range(job["schedules"]):
            sc = dict(base, strategy=rng.choice(STRATEGIES), pseed=rng.getrandbits(48),
                      prior=rng.choice(["absent", "good", "unrelated", "busy", "good", "symlink"]),
                      mode=rng.choice([None, None, "--update-in-place", "--no-update-in-place"]),
                      mmap=rng.choice([None, None, "--no-mmap-output-file"]),
                      threads=rng.choice([1, 2, 2, 4]), fork=rng.random() < 0.5,
                      depfile=rng.random() < 0.3, layout=rng.random() < 0.2)
            scenarios.append(sc)
    # System-call failures: per configuration a profile run counts the calls on the link's files,
    # then "the n-th call of kind K fails with errno E" is enumerated (all n when few, sampled
    # otherwise). Only on links that succeed without faults.
    if base["kind"] == "ok" and not job.get("scenario"):
        ncfg = {"C17": 2, "C18": 1, "C19": 1}[prop] * (1 if tier == "quick" else 3)
        if prop == "C17":
            # Forced configuration: in-place update of a longer previous file without mmap, where
            # every byte count (set_len, short writes) matters.
            scenarios.append(dict(base, fault=None, fsize=None, sysfault="", _expand=True,
                                  strategy=rng.choice(STRATEGIES), pseed=rng.getrandbits(48),
                                  prior="longer", mode="--update-in-place",
                                  mmap="--no-mmap-output-file" if index % 2 == 0 else None,
                                  threads=rng.choice([2, 4]), fork=index % 4 < 2, depfile=False,
                                  layout=False, siblings=False, _force_all=("ftruncate", "write")))
        for _ in range(ncfg):
            scenarios.append(dict(base, fault=None, fsize=None, sysfault="", _expand=True,
                                  strategy=rng.choice(STRATEGIES), pseed=rng.getrandbits(48),
                                  prior=rng.choice(["absent", "good", "unrelated", "good"]),
                                  mode=rng.choice([None, "--update-in-place", "--no-update-in-place"]),
                                  mmap=rng.choice([None, "--no-mmap-output-file"]),
                                  threads=rng.choice([1, 2, 4]), fork=rng.random() < 0.5,
                                  depfile=rng.random() < 0.4, layout=rng.random() < 0.2,
                                  siblings=False if prop == "C17" else base["siblings"]))
    wl = Workload(seed if not job.get("wl_seed") else job["wl_seed"], index, base["kind"],
                  base["out"])
    try:
        queue = list(scenarios)
        while queue:
            sc = queue.pop(0)
            expand = sc.pop("_expand", False)
            force_all = sc.pop("_force_all", ())
            r = run_scenario(sc, seed, index, wl)
            if job.get("want_decisions"):
                res["decisions"] = r.get("decisions", [])
            if expand:
                if r.get("status") != 0 or r["violations"]:
                    raise HarnessError(f"fs sysfault profile run failed: {sc} -> {r.get('status')} "
                                       f"{r.get('err')} {r['violations'][:1]}")
                counts = r.get("sys_counts", {})
                if not counts.get("open"):
                    raise HarnessError(f"fs sysfault profile saw no open() calls: {counts}")
                per_kind = 6 if tier == "quick" else 24
                for kind in sorted(SYS_ERRNOS):
                    n_calls = counts.get(kind, 0)
                    ns = list(range(1, n_calls + 1))
                    if len(ns) > per_kind:
                        ns = sorted(rng.sample(ns, per_kind))
                    for n in ns:
                        errs = SYS_ERRNOS[kind]
                        for e in (errs if (tier != "quick" and n_calls <= 4) or kind in force_all else
                                  rng.sample(errs, min(len(errs), 2))):
                            rule = f"{kind}#{n}={e}"
                            # A failing writable mmap makes wild fall back to write(); sometimes let
                            # that path meet a write fault too.
                            if kind == "mmap" and rng.random() < 0.5:
                                rule += f";write#{rng.randint(1, 3)}={rng.choice(SYS_ERRNOS['write'])}"
                            # the writable mapping cannot be created *and* the file cannot be resized
                            if kind == "mmap" and "longer" == sc.get("prior") and rng.random() < 0.5:
                                rule += f";ftruncate#{rng.randint(1, 2)}=EIO"
                            queue.append(dict(sc, sysfault=rule))
                c["sysfault_profiles"] = c.get("sysfault_profiles", 0) + 1
                for k, v in counts.items():
                    c[f"syscalls_profiled_{k}"] = c.get(f"syscalls_profiled_{k}", 0) + v
            res["runs"] += 1
            res["steps"] += r.get("steps", 0)
            res["switches"] += r.get("switches", 0)
            if r.get("switches", 0) > 0:
                res["distinct"].append(f"{index}:{r.get('trace_hash')}:{sc.get('fault')}")
            res.setdefault("trace", []).append((res["runs"], r.get("status"), r.get("steps", 0),
                                                r.get("trace_hash"), tuple(r.get("sys_fired", [])),
                                                tuple(sorted(r.get("sys_counts", {}).items()))))
            fk = sc["fault"].split("@")[0] if sc["fault"] else ("fsize" if sc.get("fsize") else "none")
            if sc.get("sysfault"):
                fk = "sys_" + sc["sysfault"].split("#")[0]
                if not r.get("sys_fired"):
                    # The same plan made the same calls in the profile run: a rule that does not
                    # fire means the run is not a function of its plan.
                    if r.get("status") == 0:
                        raise HarnessError(f"fs sysfault rule did not fire: {sc}")
                else:
                    r["fault_fired"] = r["sys_fired"]
                    for fl in r["sys_fired"]:
                        e = sc["sysfault"].split("=")[-1].split(":")[0]
                        c[f"fault_fired_errno_{e}"] = c.get(f"fault_fired_errno_{e}", 0) + 1
            c[f"fault_configured_{fk}"] = c.get(f"fault_configured_{fk}", 0) + 1
            if r.get("fault_fired"):
                c[f"fault_fired_{fk}"] = c.get(f"fault_fired_{fk}", 0) + 1
            if sc.get("fsize") and "File too large" in r.get("err", ""):
                c["fault_fired_fsize"] = c.get("fault_fired_fsize", 0) + 1
            if sc.get("sigchld_ign"):
                c["history_sigchld_ignored"] = c.get("history_sigchld_ignored", 0) + 1
            c[f"kind_{sc['kind']}"] = c.get(f"kind_{sc['kind']}", 0) + 1
            c[f"prior_{sc['prior']}"] = c.get(f"prior_{sc['prior']}", 0) + 1
            c["fork" if sc["fork"] else "nofork"] = c.get("fork" if sc["fork"] else "nofork", 0) + 1
            st = r.get("status")
            c["status_zero" if st == 0 else "status_nonzero"] = \
                c.get("status_zero" if st == 0 else "status_nonzero", 0) + 1
            if st != 0 and not r.get("created") and r.get("creator_ran") is False:
                c["probe_error_exit_before_creator_ran"] = \
                    c.get("probe_error_exit_before_creator_ran", 0) + 1
            if r.get("renamed") and not r.get("delete_ran"):
                c["probe_old_output_renamed_but_delete_task_never_ran"] = \
                    c.get("probe_old_output_renamed_but_delete_task_never_ran", 0) + 1
            if "ExecutableFileBusy" in r.get("err", "") or (sc["prior"] == "busy" and st == 0):
                c["probe_busy_output_relinked"] = c.get("probe_busy_output_relinked", 0) + 1
            desc = {"family": "fs", "job": {"prop": prop, "seed": seed, "index": index, "tier": tier,
                                            "schedules": 0, "scenario": sc}}
            if not res["samples"]:
                res["samples"].append(desc)
            for (vp, clause, sig, detail) in r["violations"]:
                res["violations"].append({"prop": vp, "clause": clause, "signature": sig,
                                          "detail": detail, "replay": desc})
    finally:
        wl.close()
    return res
