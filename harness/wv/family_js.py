"""Jobserver family (C35): wild runs under a GNU make jobserver (fifo or inherited pipe) with K
tokens and scripted other clients; thread count must not exceed acquired tokens + 1 and, after wild
and its background worker have exited, all tokens must be back."""
import os
import shutil

from . import family_fs
from .common import (EXIT_DEADLOCK, EXIT_INVARIANT, EXIT_STEP_BUDGET, HarnessError, Plan,
                     STRATEGIES, check_sim_health, rm_rf, rng_for, scratch_dir, sim_link)

ERR_SITES = family_fs.ERR_SITES
PANIC_SITES = family_fs.PHASE_SITES


def drain(fd):
    n = 0
    os.set_blocking(fd, False)
    while True:
        try:
            b = os.read(fd, 4096)
        except BlockingIOError:
            break
        if not b:
            break
        n += len(b)
    return n


def run_job(job):
    prop, seed, index, tier = "C35", job["seed"], job["index"], job["tier"]
    rng = rng_for("js", seed, index)
    res = {"violations": [], "counters": {}, "distinct": [], "samples": [], "runs": 0,
           "steps": 0, "switches": 0}
    c = res["counters"]
    kind = "ok"
    wl = family_fs.Workload(seed, 100000 + index, kind, "prog")
    try:
        scenarios = []
        if job.get("scenario"):
            scenarios = [job["scenario"]]
        else:
            base = {"style": ["fifo", "fifo", "pipe"][index % 3], "k": [0, 1, 2, 3, 7][index % 5],
                    "fork": (index % 2 == 0)}
            outcomes = [None] + [f"err@site={s}" for s in ERR_SITES] + \
                [f"panic@site={s}" for s in PANIC_SITES]
            if base["fork"]:
                outcomes += ["panic@site=before_inform_parent", "panic@site=after_inform_parent"]
            for f in outcomes:
                scenarios.append(dict(base, fault=f, taken=rng.randint(0, base["k"]),
                                      strategy=rng.choice(STRATEGIES), pseed=rng.getrandbits(48)))
            for _ in range(job["schedules"]):
                scenarios.append(dict(base, fault=f"panic@step={rng.randint(1, 700)}",
                                      taken=rng.randint(0, base["k"]),
                                      strategy=rng.choice(STRATEGIES), pseed=rng.getrandbits(48)))
            # Genuine failures through the system-call fault seam (errors wild meets in real use,
            # reached through its real error paths): an input or the output cannot be opened, the
            # output cannot be written, fork() fails (in-process fallback), pipe() fails.
            n_in = len(wl.inputs)
            sysfaults = [f"open#{rng.randint(1, n_in)}=EMFILE", f"open#{n_in + 1}=ENOSPC",
                         "mmaprw#1=ENOMEM;write#1=ENOSPC", "mmaprw#1=ENODEV;write#1=short:100;write#2=EIO",
                         f"statx#{rng.randint(1, 3 * n_in)}=EIO"]
            if base["fork"]:
                sysfaults += ["fork#1=EAGAIN", "pipe#1=EMFILE", "fork#1=ENOMEM;open#2=EACCES"]
            for sf in sysfaults:
                scenarios.append(dict(base, fault=None, sysfault=sf, taken=rng.randint(0, base["k"]),
                                      strategy=rng.choice(STRATEGIES), pseed=rng.getrandbits(48)))
        for sc in scenarios:
            wl.n += 1
            d = os.path.join(wl.root, f"d{wl.n}")
            shutil.copytree(wl.template, d)
            k, taken = sc["k"], sc["taken"]
            pass_fds = ()
            fifo_path = os.path.join(wl.root, f"js{wl.n}.fifo")
            if sc["style"] == "fifo":
                os.mkfifo(fifo_path)
                rfd = os.open(fifo_path, os.O_RDWR)
                wfd = rfd
                makeflags = f" -j{k + 1} --jobserver-auth=fifo:{fifo_path}"
            else:
                rfd, wfd = os.pipe()
                os.set_inheritable(rfd, True)
                os.set_inheritable(wfd, True)
                pass_fds = (rfd, wfd)
                makeflags = f" -j{k + 1} --jobserver-auth={rfd},{wfd}"
            try:
                os.write(wfd, b"+" * (k - taken))  # `taken` tokens are held by other make jobs
                argv = ["-o", "prog", "-static", "--gc-sections"] + wl.extra[2:] + wl.inputs
                if not sc["fork"]:
                    argv.append("--no-fork")
                faults = [sc["fault"]] if sc["fault"] else []
                mid_file = os.path.join(wl.ctl, f"r{wl.n}.midtokens")
                if sc["style"] == "fifo":
                    # Tokens wild holds *during* the link, measured from outside: while wild is
                    # parked at a phase boundary, drain the fifo, count, put everything back.
                    site = ["after_open", "after_layout", "write_start"][sc["pseed"] % 3]
                    probe = os.path.join(wl.ctl, f"r{wl.n}.probe.sh")
                    with open(probe, "w") as fh:
                        fh.write("#!/bin/sh\n"
                                 f"n=$(dd if='{fifo_path}' bs=1 count=64 iflag=nonblock 2>/dev/null | wc -c)\n"
                                 f"i=0; while [ $i -lt $n ]; do printf '+' > '{fifo_path}'; i=$((i+1)); done\n"
                                 f"echo $n > '{mid_file}'\n")
                    faults.append(f"cmd@site={site}@sh {probe}")
                plan = Plan(sc["pseed"], sc["strategy"], faults=faults)
                if sc.get("decisions") is not None:
                    dpath = os.path.join(wl.ctl, f"decisions_in_{wl.n}.txt")
                    with open(dpath, "w") as fh:
                        fh.write("\n".join(str(x) for x in sc["decisions"]) + "\n")
                    plan = Plan(sc["pseed"], "replay", faults=faults, decisions_in=dpath, base_strategy=sc["strategy"])
                env_extra = {"MAKEFLAGS": makeflags, "CARGO_MAKEFLAGS": None}
                syslog = os.path.join(wl.ctl, f"r{wl.n}.syslog")
                if sc.get("sysfault"):
                    env_extra.update({"LD_PRELOAD": family_fs.SIMSYS, "WILD_SIM_SYSFAULT": sc["sysfault"],
                                      "WILD_SIM_SYSFAULT_LOG": syslog})
                r = sim_link(argv, d, plan, tag=f"r{wl.n}", ctl_dir=wl.ctl, env_extra=env_extra,
                             pass_fds=pass_fds)
                check_sim_health(r, f"js job {index} scenario {sc}")
                if job.get("want_decisions"):
                    try:
                        with open(r.decisions_path) as fh:
                            res["decisions"] = [int(x) for x in fh.read().split()]
                    except (FileNotFoundError, ValueError):
                        res["decisions"] = []
                left = drain(rfd)
            finally:
                os.close(rfd)
                if wfd != rfd:
                    os.close(wfd)
                try:
                    os.unlink(fifo_path)
                except FileNotFoundError:
                    pass
            res["runs"] += 1
            res["steps"] += r.steps
            res["switches"] += int(r.summary.get("switches", 0))
            res.setdefault("trace", []).append((res["runs"], r.status, r.steps, r.trace_hash, left))
            if int(r.summary.get("switches", 0)) > 0:
                res["distinct"].append(f"{index}:{r.trace_hash}:{sc['fault']}")
            desc = {"family": "js", "job": {"prop": prop, "seed": seed, "index": index, "tier": tier,
                                            "schedules": 0, "scenario": sc}}
            if not res["samples"]:
                res["samples"].append(desc)
            fk = sc["fault"].split("@")[0] if sc["fault"] else "none"
            if sc.get("sysfault"):
                fk = "sys-" + "+".join(sorted(set(x.split("#")[0] for x in sc["sysfault"].split(";"))))
                _, fired = family_fs.read_syslog(syslog)
                if fired:
                    c["fired_sysfault"] = c.get("fired_sysfault", 0) + 1
                if r.status != 0:
                    c["sysfault_made_link_fail"] = c.get("sysfault_made_link_fail", 0) + 1
            c[f"outcome_{fk}"] = c.get(f"outcome_{fk}", 0) + 1
            c[f"style_{sc['style']}"] = c.get(f"style_{sc['style']}", 0) + 1
            c["fork" if sc["fork"] else "nofork"] = c.get("fork" if sc["fork"] else "nofork", 0) + 1
            if r.summary.get("faults_fired"):
                c[f"fired_{fk}"] = c.get(f"fired_{fk}", 0) + 1
            shutil.rmtree(d, ignore_errors=True)
            if r.status in (EXIT_DEADLOCK, EXIT_STEP_BUDGET, EXIT_INVARIANT):
                continue
            if r.summary.get("result") in ("injected_crash",):
                continue
            if r.status == 134 or (r.status is not None and r.status < 0):
                # abort (e.g. a panic that escaped a detached task): tokens held by an aborted
                # process cannot be returned by anyone; outside the property.
                c["aborted_runs"] = c.get("aborted_runs", 0) + 1
                continue

            def viol(clause, sig, detail):
                res["violations"].append({"prop": prop, "clause": clause, "signature": sig,
                                          "detail": detail, "replay": desc})

            pool = [e for e in r.events() if e[2] == "pool_built"]
            if pool:
                (_s, _t, _k, threads, tokens, explicit) = pool[0]
                c["tokens_acquired_total"] = c.get("tokens_acquired_total", 0) + tokens
                if tokens > 0:
                    c["runs_with_tokens"] = c.get("runs_with_tokens", 0) + 1
                if threads > tokens + 1:
                    viol("threads-exceed-tokens", f"js/threads>{'tokens+1'}/{sc['style']}",
                         f"{threads} threads with {tokens} tokens acquired (style {sc['style']}, "
                         f"{k - taken} available)")
                # What wild *thinks* it uses (above) is not what counts: the size of the pool it
                # actually built is (simulated machine with WILD_SIM_DEFAULT_THREADS CPUs).
                try:
                    mid = int(open(mid_file).read().strip())
                except (FileNotFoundError, ValueError):
                    mid = None
                if mid is not None:
                    held = (k - taken) - mid
                    c["mid_link_token_probes"] = c.get("mid_link_token_probes", 0) + 1
                    ps = int(r.summary.get("pool_size", 0) or 0)
                    if ps > held + 1:
                        viol("pool-larger-than-tokens-held",
                             f"js/pool>held+1/{sc['style']}",
                             f"during the link wild held {held} tokens ({k - taken} free before, {mid} "
                             f"in the fifo while wild was parked at a phase boundary) but runs a pool "
                             f"of {ps} threads")
                pool_size = int(r.summary.get("pool_size", 0) or 0)
                c[f"pool_size_{pool_size}"] = c.get(f"pool_size_{pool_size}", 0) + 1
                if pool_size > tokens + 1:
                    viol("pool-larger-than-tokens",
                         f"js/pool>{'tokens+1'}/{sc['style']}/tokens={min(tokens, 1)}",
                         f"thread pool of {pool_size} threads built with {tokens} tokens acquired "
                         f"(wild computed {threads} available threads; style {sc['style']}, "
                         f"{k - taken} tokens were free, simulated machine has "
                         f"{[1, 2, 3, 4][sc['pseed'] % 4]} CPUs)")
                if tokens > k - taken:
                    viol("more-tokens-than-available", f"js/overdraw/{sc['style']}",
                         f"acquired {tokens} tokens but only {k - taken} were available")
            if left != k - taken:
                viol("tokens-not-conserved",
                     f"js/leak/{sc['style']}/{'fork' if sc['fork'] else 'nofork'}/{fk}",
                     f"{k - taken} tokens before, {left} after wild and its worker exited (status "
                     f"{r.status}, fault {sc['fault'] or sc.get('sysfault')}, fired "
                     f"{r.summary.get('faults_fired')})")
    finally:
        wl.close()
    return res
