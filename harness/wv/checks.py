"""Per-property checks: budgets, family dispatch, violation collection, evidence, replay."""
import json
import os

from . import common
from .common import Evidence, HarnessError, Violation, pool_imap, report_and_exit

REAL_VS_STUB = {
    "real": ["libwild (all phases, unmodified apart from cfg(wild_verif) hook lines)",
             "wild/src/main.rs", "linker-utils", "object", "crossbeam-queue", "atomic-take",
             "jobserver", "memmap2", "thread_local", "kernel file system / fork / waitpid / signals",
             "GNU as / ar producing the inputs", "the linked programs that are executed"],
    "stub": ["rayon -> sim-rayon on the simrt baton scheduler",
             "foldhash global/per-hasher seeds -> WILD_VERIF_HASH_SEED",
             "std::sync::mpsc recv wait in file_writer -> simrt wait_event/notify",
             "other jobserver clients / file mutator -> scripted by the harness"],
}

GRAPH_PROPS = {
    "C05": ("exploration", "Reachability closure kept under every explored schedule"),
    "C39": ("exploration", "Traversal protocol: termination, in-run invariant, trace validation"),
    "C10": ("exploration", "Unwind tables consistent with the retained functions"),
    "C23": ("exploration", "No size-accounting failure on valid generated inputs"),
}

STR_PROPS = {
    "C07": ("exploration", "Every pointer into merged strings hits the same bytes; every string kept"),
    "C40": ("exploration", "Merge protocol: termination, in-run invariant, trace validation"),
}

DET_PROPS = {"C06": ("exploration", "Output bytes identical across schedules/knobs/history")}

BUDGETS_ERR = {"quick": (48, 10), "thorough": (480, 40)}

BUDGETS = {
    "det": {"quick": (72, 10), "thorough": (540, 30)},
    "graph": {"quick": (64, 12), "thorough": (640, 40)},
    "str": {"quick": (48, 10), "thorough": (480, 30)},
}


def _collect(prop, ev, results_iter):
    violations = []
    steps = 0
    switches = 0
    for res in results_iter:
        ev.evaluations += res["runs"]
        steps += res.get("steps", 0)
        switches += res.get("switches", 0)
        ev.merge_counters(res["counters"])
        ev.distinct.update(res["distinct"])
        if len(ev.samples) < 3:
            ev.samples.extend(res["samples"][:1])
        for v in res["violations"]:
            if v["prop"] == prop:
                violations.append(Violation(v["prop"], v["clause"], v["signature"], v["detail"],
                                            v["replay"]))
            else:
                ev.count(f"other_property_violation_{v['prop']}")
    ev.extra["simulated_steps"] = steps
    ev.extra["context_switches"] = switches
    ev.extra["real_vs_stub"] = REAL_VS_STUB
    return violations


REAL_PROPS = ("C06", "C10", "C23", "C39", "C40")
REAL_BUDGET = {"quick": (4, 3), "thorough": (48, 12)}


def _add_real_family(prop, tier, seed, ev):
    """Compiler-produced programs through `gcc -B` (family_real) feed the same property."""
    from . import family_real
    n, nsched = REAL_BUDGET[tier]
    jobs = [{"prop": prop, "seed": seed, "index": i, "tier": tier, "schedules": nsched}
            for i in range(n)]
    saved = ev.distinct
    ev.distinct = set()
    v = _collect(prop, ev, pool_imap(family_real.run_job, jobs))
    ev.distinct = saved | ev.distinct
    ev.rule += (" PLUS family_real: glibc hello / C++ exceptions / TLS / shared library + client compiled "
                "with gcc and linked through `gcc -B<ld -> simulated wild>` (static, static-pie, pie, "
                "no-pie) under varied schedules, threads, partitioning, hash seed and write mode; the "
                "programs are executed and must print their expected output.")
    return v


def run_graph_family(prop, tier, seed):
    from . import family_graph
    level, _ = GRAPH_PROPS[prop]
    nwl, nsched = BUDGETS["graph"][tier]
    ev = Evidence(prop, tier, seed, level)
    ev.rule = ("graphgen workload (random reference graph over objects/sections, real `as` output) x "
               "schedule (seed, strategy, threads, files-per-group, experiments, output kind); an "
               "evaluation is one simulated link with all oracles; distinct_nontrivial counts distinct "
               "(workload, interleaving-hash) pairs with at least one context switch")
    ev.assumptions = ["sequentially consistent interleavings at hooked operations and task boundaries",
                      "sim-rayon models rayon within the behaviours listed in DESIGN.md 3.2"]
    jobs = [{"prop": prop, "seed": seed, "index": i, "tier": tier, "schedules": nsched}
            for i in range(nwl)]
    violations = _collect(prop, ev, pool_imap(family_graph.run_job, jobs))
    if prop in REAL_PROPS:
        violations += _add_real_family(prop, tier, seed, ev)
    _probe_gate(prop, tier, ev)
    return report_and_exit(prop, ev, violations)


def run_str_family(prop, tier, seed):
    from . import family_str
    level, _ = STR_PROPS[prop]
    nwl, nsched = BUDGETS["str"][tier]
    ev = Evidence(prop, tier, seed, level)
    ev.rule = ("strgen workload (objects with mergeable string sections: duplicates, shared suffixes, "
               "empty strings, big strings, pointer tables via named symbol+addend and section "
               "symbol+mid-string offset; some with an unterminated section) x schedule (seed, strategy, "
               "threads, split parallelism, min group bytes 256..140000, files-per-group); an evaluation "
               "is one simulated link with all oracles; distinct_nontrivial counts distinct (workload, "
               "interleaving-hash) pairs with at least one context switch")
    ev.assumptions = ["sequentially consistent interleavings at hooked operations, mutex acquisitions "
                      "and task boundaries",
                      "sim-rayon models rayon within the behaviours listed in DESIGN.md 3.2"]
    jobs = [{"prop": prop, "seed": seed, "index": i, "tier": tier, "schedules": nsched}
            for i in range(nwl)]
    violations = _collect(prop, ev, pool_imap(family_str.run_job, jobs))
    if prop in REAL_PROPS:
        violations += _add_real_family(prop, tier, seed, ev)
    _probe_gate(prop, tier, ev)
    return report_and_exit(prop, ev, violations)


def run_det_family(prop, tier, seed):
    from . import family_det
    nwl, nsched = BUDGETS["det"][tier]
    ev = Evidence(prop, tier, seed, "exploration")
    ev.rule = ("a class is fixed inputs + semantic arguments (class types: dyn = exe/pie/shared against "
               "generated shared libraries with sysv/gnu/both hash tables, graph, str, script = objects "
               "behind INPUT()/GROUP() scripts, archives and thin archives; build-id none/fast/sha1); "
               "within a class every run varies threads 1..8, files-per-group, --wild-experiments, "
               "scheduler strategy and seed, hash seed, prior output state (absent, shorter, longer, "
               "random bytes, previous output), update-in-place mode, mmap, fork; all outputs of a class "
               "must be byte-identical. distinct_nontrivial = distinct (class, interleaving-hash) pairs "
               "with at least one context switch")
    ev.assumptions = ["SC interleavings", "hash-map order is explored through the patched foldhash seed "
                      "(hashbrown maps); std RandomState maps are left to the OS"]
    twin = False
    if tier == "thorough":
        # Model validation + real schedules: build the production twin (real rayon, no hooks) from
        # /repo and link every third class with it too (see family_det).
        import subprocess
        if subprocess.run([os.path.join(common.VERIF, "checks", "build_twin.sh")]).returncode != 0:
            raise HarnessError("twin build failed")
        twin = True
        ev.rule += (" In the thorough tier every third class is also linked three times by the "
                    "production twin of the same tree (real rayon, threads 4/1/8): real outputs must "
                    "equal each other (else C06 violation) and the simulated output (else harness "
                    "error: the model misrepresents wild).")
    jobs = [{"prop": prop, "seed": seed, "index": i, "tier": tier, "schedules": nsched,
             "twin": twin and i % 3 == 0} for i in range(nwl)]
    violations = _collect(prop, ev, pool_imap(family_det.run_job, jobs))
    violations += _add_real_family(prop, tier, seed, ev)
    _probe_gate(prop, tier, ev)
    if ev.counters.get("class_never_linked", 0) > nwl // 4:
        ev.write()
        raise HarnessError("too many determinism classes never linked: generator problem")
    return report_and_exit(prop, ev, violations)


def run_arch_family(prop, tier, seed):
    from . import family_arch
    nwl, nsched = {"quick": (32, 8), "thorough": (480, 30)}[tier]
    ev = Evidence(prop, tier, seed, "exploration")
    ev.rule = ("archgen link line (plain objects, archives, thin archives, whole-archive regions, strong "
               "and weak cross references, a symbol defined by two members, every fourth workload with "
               "a >5000-symbol object whose references straddle the symbol-chunking boundary) x "
               "(command-line permutation, threads 1..8, files-per-group, schedule); loaded-member set "
               "(marker symbols under --no-gc-sections) must equal the model's least fixpoint and no "
               "file may be activated twice. distinct_nontrivial = distinct (workload, "
               "interleaving-hash) pairs with a context switch")
    ev.assumptions = ["SC interleavings", "generated link lines keep the model unambiguous: one definer "
                      "per symbol except the explicit first-in-order-wins pair"]
    jobs = [{"prop": prop, "seed": seed, "index": i, "tier": tier, "schedules": nsched}
            for i in range(nwl)]
    violations = _collect(prop, ev, pool_imap(family_arch.run_job, jobs))
    _probe_gate(prop, tier, ev)
    return report_and_exit(prop, ev, violations)


FS_BUDGET = {
    "C17": {"quick": (12, 8), "thorough": (96, 60)},
    "C18": {"quick": (48, 10), "thorough": (240, 40)},
    "C19": {"quick": (48, 10), "thorough": (240, 40)},
}
FS_LEVEL = {"C17": "fault_enumeration", "C18": "fault_enumeration", "C19": "exploration"}
FS_RULE = {
    "C17": ("PLUS per workload 2 (quick) / 6 (thorough) configurations are profiled through the system-call "
            "fault seam (sim/simsys LD_PRELOAD interposer) and the n-th call of each kind on the link's "
            "files (open, statx, mmap, ftruncate, write, rename, unlink, fchmod, close, fork, pipe) is "
            "made to fail with a realistic errno or a short write; a fault that fired before the worker "
            "reported success, or any printed error, must give a non-zero status. "
            "Per workload (a successful small link) the full grid {17 phase boundaries (+2 in fork "
            "mode)} x {panic, abort, allocation failure, SIGSEGV, SIGKILL} plus {8 error-return sites} x "
            "{err} is enumerated, plus step-placed crash faults at random scheduler steps, in fork and "
            "--no-fork mode, threads 1/2/4, prior output absent/good/unrelated; oracle: exit status 0 => "
            "output byte-identical to the fault-free output and executable. "),
    "C18": ("failing links (write-time relocation overflow, failing ASSERT, undefined symbol), links "
            "with an enumerated failing system call (open/mmap/write/... through sim/simsys) and "
            "successful links with an injected error return at one of 8 sites x prior output state "
            "(absent, previous good output, unrelated content, busy executable) x write modes x threads "
            "x fork x schedule; oracle: exit status != 0 => output path absent or identical (inode, "
            "content, mtime) to before. "),
    "C19": ("successful and failing links (and, through the system-call fault seam, links on which the "
            "n-th open/mmap/write/rename/unlink/... fails) x output names (prog, libfoo.so, a.b.c, noext, .hidden, "
            "prog.exe) x pre-existing siblings (<stem>.delete, <out>.delete, <out>.layout, <stem>.d, "
            "...) x requested side files (dependency file, layout) x prior output state x write modes x "
            "threads x fork x schedule; oracle: directory snapshot (type, mode, size, inode, mtime, "
            "sha256) after wild and its background worker exited equals the snapshot before except for "
            "declared outputs. "),
}


def run_fs_family(prop, tier, seed):
    from . import family_fs
    nwl, nsched = FS_BUDGET[prop][tier]
    ev = Evidence(prop, tier, seed, FS_LEVEL[prop])
    ev.rule = FS_RULE[prop] + ("distinct_nontrivial = distinct (workload, interleaving-hash, fault) with "
                               "a context switch")
    ev.assumptions = ["real kernel file-system and signal semantics are taken as given",
                      "the harness runs as root: permission-bit states are replaced by busy-text and "
                      "unrelated-content states"]
    jobs = [{"prop": prop, "seed": seed, "index": i, "tier": tier, "schedules": nsched}
            for i in range(nwl)]
    violations = _collect(prop, ev, pool_imap(family_fs.run_job, jobs))
    if prop == "C19":
        # Concurrent links in one directory (family_conc): interleaving decided by the plan.
        from . import family_conc
        n, ns = {"quick": (12, 6), "thorough": (120, 20)}[tier]
        cjobs = [{"prop": prop, "seed": seed, "index": i, "tier": tier, "schedules": ns}
                 for i in range(n)]
        saved = ev.distinct
        ev.distinct = set()
        violations += _collect(prop, ev, pool_imap(family_conc.run_job, cjobs))
        ev.distinct = saved | {f"conc:{d}" for d in ev.distinct}
        ev.rule += (" PLUS family_conc: two simulated links A and B in one directory (outputs sharing a "
                    "stem/prefix, or the same output with the same inputs; prior outputs and look-alike "
                    "siblings present); B runs from a `cmd` fault of A at a chosen site/step, either to "
                    "completion or up to a point of its own where it parks until a later point of A "
                    "releases it; both must exit 0, each output must equal that of the same link run "
                    "alone, and nothing else in the directory may change.")
    if prop == "C17":
        ev.extra["exhaustive_grid"] = True
        ev.extra["faults"] = {k: v for k, v in ev.counters.items() if k.startswith("fault_")}
    _probe_gate(prop, tier, ev)
    return report_and_exit(prop, ev, violations)


def run_mut_family(prop, tier, seed):
    from . import family_mut
    nwl, nsched = {"quick": (16, 2), "thorough": (128, 8)}[tier]
    ev = Evidence(prop, tier, seed, "fault_enumeration")
    ev.rule = ("workload = objects + archive + thin archive (+members) + linker script with INPUT() + "
               "archive found via -L/-l + --start-lib object + object behind a symbolic link + shared "
               "library + linker script nested in a linker script; one "
               "mutation {rewrite same bytes, append, replace by rename, touch} of one input, placed at "
               "each of 13 phase boundaries (enumerated) and at random scheduler steps, threads 1/2/4, "
               "fork/no-fork; obligation only when the mutation step lies in (Opened(f), VerifyStart). "
               "distinct_nontrivial = distinct (workload, interleaving, file, action) with a context "
               "switch")
    ev.assumptions = ["changed files get a new mtime (inputs are pre-dated by the harness)",
                      "the mutation is atomic with respect to wild (it happens at a scheduling point)"]
    jobs = [{"prop": prop, "seed": seed, "index": i, "tier": tier, "schedules": nsched}
            for i in range(nwl)]
    violations = _collect(prop, ev, pool_imap(family_mut.run_job, jobs))
    _probe_gate(prop, tier, ev)
    return report_and_exit(prop, ev, violations)


def run_js_family(prop, tier, seed):
    from . import family_js
    nwl, nsched = {"quick": (15, 4), "thorough": (120, 40)}[tier]
    ev = Evidence(prop, tier, seed, "fault_enumeration")
    ev.rule = ("jobserver as fifo (--jobserver-auth=fifo:PATH) or inherited pipe fds, K in {0,1,2,3,7} "
               "tokens of which a random number are held by scripted other make jobs; outcomes "
               "enumerated per workload: success, error return at each of 8 sites, unwinding panic at "
               "each of 15 phase boundaries (+2 in fork mode), plus panics at random scheduler steps; "
               "fork and --no-fork; no --threads argument; plus genuine failures through the system-call "
               "fault seam. Oracle: pool_built event has threads <= tokens+1 and tokens <= available; the "
               "pool actually built (simulated machine with 1-4 CPUs) has <= tokens+1 threads, also "
               "against the tokens held mid-link as counted from outside (fifo drained and refilled "
               "while wild is parked at a phase boundary); after wild and every descendant exited the fifo/pipe "
               "holds as many tokens as before. distinct_nontrivial = distinct (workload, interleaving, "
               "fault) with a context switch")
    ev.assumptions = ["abort/kill outcomes are outside the property (nobody can return a dead process's "
                      "tokens)"]
    jobs = [{"prop": prop, "seed": seed, "index": i, "tier": tier, "schedules": nsched}
            for i in range(nwl)]
    violations = _collect(prop, ev, pool_imap(family_js.run_job, jobs))
    _probe_gate(prop, tier, ev)
    return report_and_exit(prop, ev, violations)


def run_relink_family(prop, tier, seed):
    from . import family_relink
    family_relink.host_binary()
    nwl, nsched = {"quick": (32, 4), "thorough": (160, 12)}[tier]
    ev = Evidence(prop, tier, seed, "exploration")
    ev.rule = ("history: link v1 -> start a process that execve's it (static exe) or dlopen's it (shared "
               "object, gcc-built host) and blocks after touching its first page -> relink v2 (same or "
               "different size) to the same path with default options under a simulated schedule "
               "(threads 1/2/4, fork/no-fork) -> release the old process, which walks page-aligned "
               "functions and data pages it had not touched. Oracle: old process prints v1's checksum "
               "and exits 0; if the relink exited 0 a fresh process prints v2's checksum. "
               "distinct_nontrivial = distinct (history, interleaving) with a context switch")
    ev.assumptions = ["real kernel page-cache/ETXTBSY semantics"]
    jobs = [{"prop": prop, "seed": seed, "index": i, "tier": tier, "schedules": nsched}
            for i in range(nwl)]
    violations = _collect(prop, ev, pool_imap(family_relink.run_job, jobs))
    _probe_gate(prop, tier, ev)
    return report_and_exit(prop, ev, violations)


def run_err_family(prop, tier, seed):
    from . import family_err
    nwl, nsched = BUDGETS_ERR[tier]
    ev = Evidence(prop, tier, seed, "exploration")
    ev.rule = ("a class is a failing or warning-only link with 2-6 independent problems spread over "
               "objects/groups (undefined symbols, duplicate definitions, out-of-range relocations at "
               "write time, failing ASSERTs, mixed, --warn-unresolved-symbols) with partitioning knobs "
               "and hash seed held fixed; runs of a class vary thread count 1..8 and schedule; exit "
               "status, error text and the set of warning blocks must be identical. "
               "distinct_nontrivial = distinct (class, interleaving-hash) pairs with a context switch")
    ev.assumptions = ["SC interleavings", "partitioning knobs and hash seed fixed within a class because "
                      "the property speaks of thread count and scheduling only"]
    jobs = [{"prop": prop, "seed": seed, "index": i, "tier": tier, "schedules": nsched}
            for i in range(nwl)]
    violations = _collect(prop, ev, pool_imap(family_err.run_job, jobs))
    return report_and_exit(prop, ev, violations)


REQUIRED_PROBES = {
    "C35": ["runs_with_tokens", "fired_err", "fired_panic", "style_fifo", "style_pipe", "fork",
            "nofork", "mid_link_token_probes", "fired_sysfault"],
    "C21": ["kind_exe", "kind_shared", "relink_ok", "probe_old_output_renamed_away"],
    "C20": ["inwindow_role_object", "inwindow_role_archive", "inwindow_role_thin-archive-index",
            "inwindow_role_thin-member", "inwindow_role_linker-script", "inwindow_role_script-input",
            "inwindow_role_searched-archive", "inwindow_role_start-lib-object",
            "inwindow_role_symlinked-object", "inwindow_role_shared-library",
            "inwindow_role_nested-linker-script",
            "detected", "window_after-verify-start"],
    "C17": ["fault_fired_fsize", "fault_fired_panic", "fault_fired_abort", "fault_fired_alloc", "fault_fired_segv",
            "fault_fired_kill", "fault_fired_err", "fork", "nofork", "sysfault_profiles",
            "fault_fired_sys_open", "fault_fired_sys_write", "fault_fired_sys_mmap",
            "fault_fired_sys_statx", "fault_fired_sys_close", "fault_fired_sys_fchmod",
            "fault_fired_sys_ftruncate", "fault_fired_sys_fork", "fault_fired_sys_pipe",
            "fault_fired_sys_rename", "fault_fired_sys_unlink", "history_sigchld_ignored"],
    "C18": ["probe_error_exit_before_creator_ran", "fault_fired_err", "prior_busy", "sysfault_profiles",
            "fault_fired_sys_open", "fault_fired_sys_mmap"],
    "C06": ["sysfault_rules_fired", "prior_busy", "prior_ff-longer", "prior_aa-exact", "class_tls",
            "class_dyn", "class_script", "class_big", "class_str", "class_graph"],
    "C19": ["prior_busy", "prior_symlink", "probe_busy_output_relinked", "pairs_interleaved", "same_output_pairs",
            "mode_split", "mode_atomic"],
    "C03": ["probe_take_lost", "big_object_classes", "activations"],
    "C40": ["probe_reserve_cas_lost", "probe_reserve_low", "probe_bucket_parked",
            "probe_put_resumes_parked_bucket", "probe_multi_group_sections"],
    "C07": ["probe_multi_group_sections", "pointers_checked", "unterminated_runs"],
    "C10": ["eh_lsda_functions_checked", "eh_checked_functions", "eh_fdes"],
    "C39": ["probe_request_before_activation_finished", "probe_send_woke_parked_worker",
            "probe_swap_with_new_work", "probe_delayed_group_drained"],
}


def _probe_gate(prop, tier, ev):
    missing = [p for p in REQUIRED_PROBES.get(prop, []) if ev.counters.get(p, 0) == 0]
    ev.extra["reach_probes_at_zero"] = missing
    if missing and tier == "thorough":
        ev.write()
        raise HarnessError(f"reach probes at zero: {missing}")


def run_c23(tier, seed):
    """C23 is a global invariant over every successful-by-model link: run a slice of each family."""
    from . import family_arch, family_graph, family_str
    prop = "C23"
    ev = Evidence(prop, tier, seed, "exploration")
    ev.rule = ("every simulated link of a model-valid generated input (graph, string-merge, archive and "
               "dynamic-linking families - the last with copy relocations, pointers to shared-library "
               "data/functions in writable data, weak aliases and TLS -, all their option swarms; WILD_VERIFY_ALLOCATIONS=1 on a tenth of the graph "
               "runs) must not fail with an allocation/size-accounting error. distinct_nontrivial = "
               "distinct (family, workload, interleaving-hash) with a context switch")
    ev.assumptions = ["inputs are generated families, not all programs",
                      "'valid' = accepted by the generator's model (spot-checked against GNU ld)"]
    scale = {"quick": 1, "thorough": 16}[tier]
    nsched = {"quick": 6, "thorough": 20}[tier]
    violations = []
    for name, fam, n in (("graph", family_graph, 16), ("str", family_str, 12),
                         ("arch", family_arch, 12)):
        jobs = [{"prop": prop, "seed": seed, "index": i, "tier": tier, "schedules": nsched}
                for i in range(n * scale)]
        before = set(ev.distinct)
        ev.distinct = set()
        v = _collect(prop, ev, pool_imap(fam.run_job, jobs))
        ev.distinct = before | {f"{name}:{d}" for d in ev.distinct}
        violations += v
    # Dynamic executables/PIEs/shared objects against generated shared libraries (copy relocations,
    # pointers to library data and functions in writable data, weak aliases, TLS): family_det's
    # classes, where a link that fails with an allocation error is a C23 violation.
    from . import family_det
    for ctype, n in (("dyn", 12), ("tls", 6)):
        jobs = [{"prop": prop, "seed": seed, "index": 5000 + i, "tier": tier, "schedules": nsched,
                 "ctype": ctype} for i in range(n * scale)]
        before = set(ev.distinct)
        ev.distinct = set()
        v = _collect(prop, ev, pool_imap(family_det.run_job, jobs))
        ev.distinct = before | {f"{ctype}:{d}" for d in ev.distinct}
        violations += v
    violations += _add_real_family(prop, tier, seed, ev)
    return report_and_exit(prop, ev, violations)


def run(prop, tier, seed):
    if tier not in ("quick", "thorough"):
        raise HarnessError(f"unknown tier {tier}")
    if prop == "C23":
        return run_c23(tier, seed)
    if prop in GRAPH_PROPS:
        return run_graph_family(prop, tier, seed)
    if prop in STR_PROPS:
        return run_str_family(prop, tier, seed)
    if prop in DET_PROPS:
        return run_det_family(prop, tier, seed)
    if prop == "C03":
        return run_arch_family(prop, tier, seed)
    if prop == "C20":
        return run_mut_family(prop, tier, seed)
    if prop == "C35":
        return run_js_family(prop, tier, seed)
    if prop == "C21":
        return run_relink_family(prop, tier, seed)
    if prop in FS_BUDGET:
        return run_fs_family(prop, tier, seed)
    if prop == "C26":
        return run_err_family(prop, tier, seed)
    raise HarnessError(f"no check for {prop}")


FAMILY_MODULES = {"graph": "family_graph", "str": "family_str", "arch": "family_arch",
                   "det": "family_det", "err": "family_err", "fs": "family_fs", "mut": "family_mut",
                   "js": "family_js", "relink": "family_relink", "real": "family_real", "conc": "family_conc"}
MINIMISABLE = ("graph", "str", "arch", "fs", "mut", "js")
SCENARIO_FAMILIES = ("fs", "mut", "js")  # the decision list travels inside job["scenario"]


def _family(fam):
    import importlib
    if fam not in FAMILY_MODULES:
        raise HarnessError(f"unknown family {fam}")
    return importlib.import_module("." + FAMILY_MODULES[fam], __package__)


def minimise(v, budget=160):
    """Schedule minimisation: replace recorded scheduling decisions by 0 ("keep running" / first
    candidate / no cut) while the same violation signature persists. Returns the replay dict with the
    minimised decision list, or the original replay if the family isn't schedule-minimisable."""
    rp = v.replay
    fam = rp.get("family")
    if fam not in MINIMISABLE:
        return rp
    mod = _family(fam)
    job = dict(rp["job"])
    job["prop"] = v.prop

    def fails(decisions):
        j = dict(job)
        if decisions is not None:
            if fam in SCENARIO_FAMILIES:
                j["scenario"] = dict(j["scenario"], decisions=decisions)
            else:
                j["decisions"] = decisions
        j["want_decisions"] = True
        res = mod.run_job(j)
        ok = any(x["prop"] == v.prop and x["signature"] == v.signature for x in res["violations"])
        return ok, res.get("decisions", [])

    ok, base = fails(None)
    if not ok or not base:
        return rp
    ok, _ = fails(base)
    if not ok:
        return rp  # replay by decision list doesn't reproduce; keep the seed-based replay
    used = 2
    cur = list(base)
    nz = [i for i, x in enumerate(cur) if x != 0]
    chunk = max(1, len(nz) // 2)
    while nz and used < budget:
        progressed = False
        i = 0
        while i < len(nz) and used < budget:
            part = nz[i:i + chunk]
            trial = list(cur)
            for k in part:
                trial[k] = 0
            used += 1
            ok, _ = fails(trial)
            if ok:
                cur = trial
                nz = [k for k in nz if k not in set(part)]
                progressed = True
            else:
                i += chunk
        if chunk == 1 and not progressed:
            break
        chunk = max(1, chunk // 2)
    # Drop the all-zero tail.
    while cur and cur[-1] == 0:
        cur.pop()
    out = dict(rp)
    out["job"] = dict(job)
    if fam in SCENARIO_FAMILIES:
        out["job"]["scenario"] = dict(job["scenario"], decisions=cur)
    else:
        out["job"]["decisions"] = cur
    out["minimised"] = {"decisions_before": len(base), "nonzero_before": sum(1 for x in base if x),
                        "nonzero_after": sum(1 for x in cur if x), "reruns": used}
    return out


def replay(path):
    with open(path) as f:
        doc = json.load(f)
    rp = doc["replay"]
    mod = _family(rp["family"])
    job = dict(rp["job"])
    job["prop"] = doc["property"]
    res = mod.run_job(job)
    for v in res["violations"]:
        if v["prop"] == doc["property"] and v["signature"] == doc["signature"]:
            print(f"VIOLATION property={doc['property']} replay={path}")
            print(f"  reproduced: clause={v['clause']} detail={v['detail'][:400]}")
            return 1
    print(f"HARNESS-ERROR: replay of {path} did not reproduce {doc['signature']}")
    return 2
