"""Minimal ELF64 little-endian reader (enough for the oracles)."""
import struct

SHT_SYMTAB = 2
SHT_STRTAB = 3
SHT_NOBITS = 8
SHT_DYNSYM = 11
PT_LOAD = 1


class Section:
    __slots__ = ("name", "type", "flags", "addr", "offset", "size", "link", "info", "align",
                 "entsize", "index")


class Symbol:
    __slots__ = ("name", "value", "size", "info", "other", "shndx")

    @property
    def bind(self):
        return self.info >> 4

    @property
    def type(self):
        return self.info & 0xF


class Elf:
    def __init__(self, path=None, data=None):
        if data is None:
            with open(path, "rb") as f:
                data = f.read()
        self.data = data
        if data[:4] != b"\x7fELF" or data[4] != 2 or data[5] != 1:
            raise ValueError("not an ELF64 LE file")
        (self.e_type, self.e_machine, _v, self.e_entry, self.e_phoff, self.e_shoff, _flags,
         _ehsize, self.e_phentsize, self.e_phnum, self.e_shentsize, self.e_shnum,
         self.e_shstrndx) = struct.unpack_from("<HHIQQQIHHHHHH", data, 16)
        self.sections = []
        for i in range(self.e_shnum):
            off = self.e_shoff + i * self.e_shentsize
            (name, typ, flags, addr, offset, size, link, info, align, entsize) = struct.unpack_from(
                "<IIQQQQIIQQ", data, off)
            s = Section()
            s.name = name
            s.type, s.flags, s.addr, s.offset, s.size = typ, flags, addr, offset, size
            s.link, s.info, s.align, s.entsize, s.index = link, info, align, entsize, i
            self.sections.append(s)
        if self.sections and self.e_shstrndx < len(self.sections):
            st = self.sections[self.e_shstrndx]
            for s in self.sections:
                s.name = self._cstr(st.offset + s.name)
        self.segments = []
        for i in range(self.e_phnum):
            off = self.e_phoff + i * self.e_phentsize
            (p_type, p_flags, p_offset, p_vaddr, p_paddr, p_filesz, p_memsz,
             p_align) = struct.unpack_from("<IIQQQQQQ", data, off)
            self.segments.append((p_type, p_flags, p_offset, p_vaddr, p_filesz, p_memsz, p_align))
        self._symtab = None
        self._dynsym = None

    def _cstr(self, off):
        end = self.data.index(b"\0", off)
        return self.data[off:end].decode("latin-1")

    def section(self, name):
        for s in self.sections:
            if s.name == name:
                return s
        return None

    def section_data(self, s):
        if s is None or s.type == SHT_NOBITS:
            return b""
        return self.data[s.offset:s.offset + s.size]

    def _read_syms(self, typ):
        out = []
        for s in self.sections:
            if s.type != typ:
                continue
            strtab = self.sections[s.link]
            n = s.size // 24
            for i in range(n):
                (name, info, other, shndx, value, size) = struct.unpack_from(
                    "<IBBHQQ", self.data, s.offset + i * 24)
                sym = Symbol()
                sym.name = self._cstr(strtab.offset + name) if name else ""
                sym.value, sym.size, sym.info, sym.other, sym.shndx = value, size, info, other, shndx
                out.append(sym)
        return out

    @property
    def symtab(self):
        if self._symtab is None:
            self._symtab = self._read_syms(SHT_SYMTAB)
        return self._symtab

    @property
    def dynsym(self):
        if self._dynsym is None:
            self._dynsym = self._read_syms(SHT_DYNSYM)
        return self._dynsym

    def symbols_by_name(self):
        d = {}
        for s in self.symtab:
            if s.name and s.shndx != 0:
                d.setdefault(s.name, s)
        return d

    def vaddr_to_offset(self, vaddr):
        for (p_type, _f, p_offset, p_vaddr, p_filesz, _m, _a) in self.segments:
            if p_type == PT_LOAD and p_vaddr <= vaddr < p_vaddr + p_filesz:
                return p_offset + (vaddr - p_vaddr)
        return None

    def read_vaddr(self, vaddr, n):
        off = self.vaddr_to_offset(vaddr)
        if off is None:
            return None
        return self.data[off:off + n]

    def cstr_at_vaddr(self, vaddr, limit=1 << 20):
        off = self.vaddr_to_offset(vaddr)
        if off is None:
            return None
        end = self.data.find(b"\0", off, off + limit)
        if end < 0:
            return None
        return self.data[off:end + 1]

    def section_containing(self, vaddr):
        for s in self.sections:
            if s.addr and s.addr <= vaddr < s.addr + max(s.size, 1) and (s.flags & 2):
                return s
        return None
