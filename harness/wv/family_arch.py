"""Archive family (C03): link lines of plain objects, archives, thin archives and whole-archive
regions with cross references; the set of loaded members must equal the model's least fixpoint,
each member must be activated at most once, and the set must not depend on command-line position
or schedule."""
import os

from .common import (EXIT_DEADLOCK, EXIT_INVARIANT, EXIT_STEP_BUDGET, HarnessError, Plan,
                     STRATEGIES, assemble, check_sim_health, rm_rf, rng_for, run_cmd, scratch_dir,
                     sim_link)
from .elf import Elf
from .family_graph import ALLOC_ERR


class Unit:
    """One object file: either a plain input or an archive member."""

    def __init__(self, idx):
        self.idx = idx
        self.name = f"u{idx}"
        self.defs = []       # symbol names defined (besides the marker mk_<name>)
        self.refs = []       # (symbol, weak)
        self.container = None  # None (plain) or container index
        self.filler = 0      # number of extra global definitions (to reach the 5000-symbol chunking)
        self.weak_defs = []  # symbols defined weakly


class Container:
    def __init__(self, idx, kind):
        self.idx = idx
        self.kind = kind  # 'archive' | 'thin'
        self.whole = False
        self.members = []


def generate(rng, index):
    big = (index % 4 == 3)
    nplain = rng.randint(1, 4)
    ncont = rng.randint(1, 6)
    units = []
    containers = []
    for i in range(nplain):
        units.append(Unit(len(units)))
    for c in range(ncont):
        cont = Container(c, rng.choice(["archive", "archive", "thin"]))
        cont.whole = rng.random() < 0.15
        for _ in range(rng.randint(1, 8)):
            u = Unit(len(units))
            u.container = c
            units.append(u)
            cont.members.append(u.idx)
        containers.append(cont)
    # every member defines 1-3 symbols, unique definer per symbol
    for u in units:
        for j in range(rng.randint(1, 3)):
            u.defs.append(f"s{u.idx}_{j}")
    members = [u for u in units if u.container is not None]
    all_syms = [(u.idx, s) for u in units for s in u.defs]
    # references: mostly towards members
    for u in units:
        for _ in range(rng.randint(0, 4)):
            (owner, sym) = rng.choice(all_syms)
            if owner == u.idx:
                continue
            u.refs.append((sym, rng.random() < 0.25))
    # A symbol defined by two archive members: the first in command-line order must be loaded when the
    # symbol is referenced. Variant 1: the later definer has no other way of being loaded. Variant 2:
    # the later definer defines it weakly and IS loaded through another of its symbols (so whether it
    # was activated before or after the reference is processed must not matter).
    dups = []
    if len(members) >= 2 and rng.random() < 0.6:
        a, b = sorted(rng.sample(members, 2), key=lambda u: u.idx)
        sym = f"dup{a.idx}_{b.idx}"
        variant = rng.choice(["later-unreachable", "later-weak-and-loaded"])
        a.defs.append(sym)
        containers[b.container].whole = False
        containers[a.container].whole = False
        if variant == "later-unreachable":
            b.defs.append(sym)
            bsyms = set(b.defs) - {sym}
            for u in units:
                u.refs = [(s, w) for (s, w) in u.refs if s not in bsyms]
        else:
            b.weak_defs = [sym]
            # make sure b is loaded through one of its own symbols, from a plain object
            units[rng.randrange(nplain)].refs.append((b.defs[0], False))
        dups.append((sym, a.idx, b.idx))
        units[rng.randrange(nplain)].refs.append((sym, False))
    big_unit = None
    if big:
        # A plain object with more than 5000 symbols, whose references straddle the boundary
        # at which symbol resolution work for one object is split into chunks.
        big_unit = Unit(len(units))
        big_unit.filler = 4975 + rng.randint(0, 10)
        cont = Container(len(containers), "archive")
        for k in range(50):
            m = Unit(len(units) + 1 + k)
            m.container = cont.idx
            m.defs.append(f"s{m.idx}_0")
            cont.members.append(m.idx)
            big_unit.refs.append((f"s{m.idx}_0", False))
        units.append(big_unit)
        for k in range(50):
            m = Unit(len(units))
            m.container = cont.idx
            m.defs.append(f"s{m.idx}_0")
            units.append(m)
        containers.append(cont)
    # Assembler semantics: `.weak s` makes the undefined symbol weak for the whole object, so a unit
    # that refers to a symbol both weakly and strongly refers to it weakly (found as a false alarm
    # of the thorough tier: the model used to count the strong reference).
    for u in units:
        weak_syms = {s for (s, wk) in u.refs if wk}
        u.refs = [(s, wk or s in weak_syms) for (s, wk) in u.refs]
    return {"units": units, "containers": containers, "dups": dups, "big": big,
            "big_unit": big_unit.idx if big_unit else None}


def model_loaded(w, order):
    """Least fixpoint. `order` is the command-line order of items: ('p', unit) | ('c', container)."""
    units = w["units"]
    containers = w["containers"]
    cmd_pos = {}
    pos = 0
    for (k, i) in order:
        if k == "p":
            cmd_pos[i] = pos
            pos += 1
        else:
            for m in containers[i].members:
                cmd_pos[m] = pos
                pos += 1
    definers = {}
    for u in units:
        for s in list(u.defs) + list(u.weak_defs):
            definers.setdefault(s, []).append(u.idx)
    for s in definers:
        definers[s].sort(key=lambda i: cmd_pos[i])
    loaded = set(u.idx for u in units if u.container is None)
    for c in containers:
        if c.whole:
            loaded.update(c.members)
    changed = True
    while changed:
        changed = False
        for i in sorted(loaded):
            for (s, weak) in units[i].refs:
                if weak:
                    continue
                ds = definers.get(s, [])
                if not ds:
                    continue
                # The file holding the first definition (command-line order) is loaded, whether or
                # not a later definer happens to be part of the link already.
                if ds[0] in loaded:
                    continue
                loaded.add(ds[0])
                changed = True
    return loaded


def emit(w, workdir):
    units = w["units"]
    for u in units:
        out = [f'\t.section .text.{u.name},"ax",@progbits']
        out.append(f"\t.globl mk_{u.name}")
        out.append(f"\t.type mk_{u.name},@function")
        out.append(f"mk_{u.name}:")
        for k in range(u.filler):
            out.append(f"\t.globl fill{u.idx}_{k}")
            out.append(f"fill{u.idx}_{k}:")
        for s in u.defs:
            out.append(f"\t.globl {s}")
            out.append(f"{s}:")
        for s in u.weak_defs:
            out.append(f"\t.weak {s}")
            out.append(f"{s}:")
        out.append("\tret")
        for (s, weak) in u.refs:
            if weak:
                out.append(f"\t.weak {s}")
            out.append(f"\t.quad {s}")
        if u.idx == 0:
            out.append("\t.globl _start")
            out.append("_start:")
            out.append("\tmovl $231, %eax")
            out.append("\txorl %edi, %edi")
            out.append("\tsyscall")
        out.append('\t.section .note.GNU-stack,"",@progbits')
        src = os.path.join(workdir, f"{u.name}.s")
        with open(src, "w") as f:
            f.write("\n".join(out) + "\n")
        assemble(src, os.path.join(workdir, f"{u.name}.o"))
    for c in w["containers"]:
        path = os.path.join(workdir, f"lib{c.idx}.a")
        flags = "rcsT" if c.kind == "thin" else "rcs"
        rc, o, e = run_cmd(["ar", flags, path] + [os.path.join(workdir, f"u{m}.o")
                                                   for m in c.members])
        if rc != 0:
            raise HarnessError(f"ar failed: {e}")


def order_args(w, order, workdir):
    args = []
    for (k, i) in order:
        if k == "p":
            args.append(os.path.join(workdir, f"u{i}.o"))
        else:
            c = w["containers"][i]
            p = os.path.join(workdir, f"lib{c.idx}.a")
            if c.whole:
                args += ["--whole-archive", p, "--no-whole-archive"]
            else:
                args.append(p)
    return args


def permute(rng, w, base):
    """A permutation of the command line that keeps the relative order of the two definers of each
    duplicated symbol (the only thing the model says may matter)."""
    order = list(base)
    rng.shuffle(order)
    units = w["units"]
    for (sym, a, b) in w["dups"]:
        ca, cb = units[a].container, units[b].container
        if ca == cb:
            continue
        ia, ib = order.index(("c", ca)), order.index(("c", cb))
        if ia > ib:
            order[ia], order[ib] = order[ib], order[ia]
    return order


def run_job(job):
    seed, index = job["seed"], job["index"]
    rng = rng_for("arch", seed, index)
    workdir = scratch_dir(f"a{index}")
    res = {"violations": [], "counters": {}, "distinct": [], "samples": [], "runs": 0,
           "steps": 0, "switches": 0}
    c = res["counters"]
    try:
        w = generate(rng, index)
        emit(w, workdir)
        units = w["units"]
        base = [("p", u.idx) for u in units if u.container is None] + \
               [("c", ct.idx) for ct in w["containers"]]
        c["big_object_classes"] = 1 if w["big"] else 0
        vr = rng_for("arch-var", seed, index)
        only = job.get("only_schedule")
        ref_set = None
        for s in range(job["schedules"]):
            order = base if s == 0 else permute(vr, w, base)
            threads = vr.choice([1, 2, 2, 3, 4, 8])
            fpg = vr.choice([None, 1, 2, 4])
            strategy = vr.choice(STRATEGIES)
            pseed = vr.getrandbits(48)
            if only is not None and s != only:
                continue
            expect = model_loaded(w, order)
            out = os.path.join(workdir, f"out{s}")
            argv = ["-o", out, "-static", "--no-gc-sections", f"--threads={threads}", "--no-fork"] \
                + order_args(w, order, workdir)
            env = {"WILD_FILES_PER_GROUP": str(fpg) if fpg else None}
            plan = Plan(pseed, strategy, log_level=1)
            if job.get("decisions") is not None:
                dpath = os.path.join(workdir, f"decisions_in_{s}.txt")
                with open(dpath, "w") as fh:
                    fh.write("\n".join(str(x) for x in job["decisions"]) + "\n")
                plan = Plan(pseed, "replay", log_level=1, decisions_in=dpath, base_strategy=strategy)
            r = sim_link(argv, workdir, plan, tag=f"s{s}", env_extra=env)
            check_sim_health(r, f"arch job {index} schedule {s}")
            if job.get("want_decisions"):
                try:
                    with open(r.decisions_path) as fh:
                        res["decisions"] = [int(x) for x in fh.read().split()]
                except FileNotFoundError:
                    res["decisions"] = []
            res["runs"] += 1
            res.setdefault("trace", []).append((s, r.status, r.steps, r.trace_hash))
            res["steps"] += r.steps
            res["switches"] += int(r.summary.get("switches", 0))
            c[f"threads_{threads}"] = c.get(f"threads_{threads}", 0) + 1
            if int(r.summary.get("switches", 0)) > 0:
                res["distinct"].append(f"{index}:{r.trace_hash}")
            desc = {"family": "arch",
                    "job": {k: job[k] for k in ("seed", "index", "tier", "schedules") if k in job}
                    | {"only_schedule": s},
                    "units": len(units), "containers": len(w["containers"]), "big": w["big"],
                    "argv": [a if not a.startswith("/") else os.path.basename(a) for a in argv],
                    "env": env, "plan": plan.to_json()}
            if not res["samples"]:
                res["samples"].append(desc)

            def viol(prop, clause, signature, detail):
                res["violations"].append({"prop": prop, "clause": clause, "signature": signature,
                                          "detail": detail, "replay": desc})

            err = r.err_text()
            if r.status in (EXIT_DEADLOCK, EXIT_STEP_BUDGET, EXIT_INVARIANT):
                viol("C03", "termination", "arch/sim-abort", f"status {r.status}: {err[-300:]}")
                continue
            # exactly-once activation
            seen = {}
            for (step, tid, kind, a, b, _c) in r.events():
                if kind == "res_activate":
                    seen[(a, b)] = seen.get((a, b), 0) + 1
            c["activations"] = c.get("activations", 0) + len(seen)
            twice = [k for k, n in seen.items() if n > 1]
            if twice:
                viol("C03", "exactly-once", "arch/activated-twice",
                     f"file ids activated more than once: {twice[:5]}")
            c["probe_take_lost"] = c.get("probe_take_lost", 0) + \
                int(r.summary.get("probe.res_take_lost", 0))
            if r.status != 0:
                if any(m in err for m in ALLOC_ERR):
                    viol("C23", "size-accounting", "arch/alloc-error", err[-400:])
                    viol("C03", "link-failed", "arch/link-failed-alloc",
                         f"status {r.status}: {err[-400:]}")
                else:
                    viol("C03", "link-failed", "arch/link-failed", f"status {r.status}: {err[-400:]}")
                continue
            try:
                elf = Elf(out)
            except Exception as e:  # noqa: BLE001
                viol("C03", "output-unreadable", "arch/output-unreadable", str(e))
                continue
            syms = elf.symbols_by_name()
            got = set(u.idx for u in units if f"mk_{u.name}" in syms)
            c["members_checked"] = c.get("members_checked", 0) + len(units)
            if got != expect:
                extra = sorted(got - expect)
                missing = sorted(expect - got)
                what = "big-object" if w["big"] and (w["big_unit"] is not None) and \
                    any(m > w["big_unit"] for m in missing) else "general"
                viol("C03", "fixpoint", f"arch/fixpoint/{what}",
                     f"loaded set differs from model: extra members {extra[:8]}, missing "
                     f"{missing[:8]} (order {'base' if s == 0 else 'permuted'})")
            if ref_set is None:
                ref_set = (got, s)
            try:
                os.unlink(out)
            except FileNotFoundError:
                pass
    finally:
        if not job.get("keep"):
            rm_rf(workdir)
    return res
