"""Determinism family (C06): one class = fixed inputs + semantic arguments; every run of the class,
whatever the schedule, thread count, partitioning, hash seed, prior output state or write mode, must
produce byte-identical output."""
import hashlib
import os
import shutil

from . import gen_graph, gen_str, gen_dyn
from .common import (EXIT_DEADLOCK, EXIT_INVARIANT, EXIT_STEP_BUDGET, HarnessError, Plan, STRATEGIES,
                     VERIF,
                     check_sim_health, rm_rf, rng_for, scratch_dir, sim_link)
from .elf import Elf
from .family_fs import SIMSYS, read_syslog
from .family_graph import ALLOC_ERR

TWIN_WILD = os.path.join(VERIF, "target-real", "debug", "wild")

PRIOR_STATES = ["absent", "absent", "shorter", "longer", "random", "previous", "busy"]


def first_diff_section(path_a, path_b):
    a = open(path_a, "rb").read()
    b = open(path_b, "rb").read()
    if len(a) != len(b):
        where = f"size {len(a)} vs {len(b)}"
    else:
        where = ""
    n = min(len(a), len(b))
    off = next((i for i in range(n) if a[i] != b[i]), n)
    sec = "?"
    try:
        e = Elf(data=a)
        for s in e.sections:
            if s.type != 8 and s.offset <= off < s.offset + s.size:
                sec = s.name
                break
        else:
            if e.e_shoff <= off:
                sec = "<section headers>"
            elif off < 64:
                sec = "<file header>"
            else:
                sec = "<padding/other>"
    except Exception:  # noqa: BLE001
        sec = "<unparsable>"
    ndiff = sum(1 for i in range(n) if a[i] != b[i])
    return sec, off, ndiff, where


def prepare_prior(state, out, rng, previous):
    try:
        os.unlink(out)
    except FileNotFoundError:
        pass
    if state == "absent":
        return None
    if state == "busy":
        # the file at the output path is being executed (ETXTBSY on opening it for writing)
        import subprocess
        import time
        shutil.copyfile("/bin/sleep", out)
        os.chmod(out, 0o755)
        p = subprocess.Popen([out, "600"], stdout=subprocess.DEVNULL, stderr=subprocess.DEVNULL)
        time.sleep(0.02)
        return p
    if state == "previous" and previous and os.path.exists(previous):
        shutil.copyfile(previous, out)
        os.chmod(out, 0o755)
        return
    if state in ("ff-longer", "aa-exact"):
        # Every byte of the new output must be written by this link: a prior file of 0xFF (longer
        # than the output) or 0xAA (exactly as long) makes any byte that wild leaves alone visible.
        n = os.path.getsize(previous) if previous and os.path.exists(previous) else 20000
        with open(out, "wb") as f:
            f.write(b"\xff" * (n + 4099) if state == "ff-longer" else b"\xaa" * n)
        os.chmod(out, 0o755)
        return
    size = {"shorter": rng.randint(1, 300), "longer": rng.randint(200_000, 400_000),
            "random": rng.randint(3000, 30000), "previous": 5000}[state]
    with open(out, "wb") as f:
        f.write(rng.randbytes(size))
    os.chmod(out, 0o755)


CLASS_CYCLE = ["dyn", "graph", "str", "tls", "dyn", "script", "graph", "big"]


def make_class(rng, workdir, tier, index=0, force_ctype=None):
    """Returns (class_type, base_argv (without output/knobs), description, notes)."""
    ctype = CLASS_CYCLE[index % len(CLASS_CYCLE)]
    if force_ctype:
        ctype = force_ctype
    if ctype in ("graph", "tls"):
        # "tls": every TLS access model (GD, IE, TLSDESC) x visibility, mostly in shared objects,
        # where the GOT slots get dynamic relocations instead of values.
        g = gen_graph.generate(rng, rng.choice(["small", "medium"]), force_tls=(ctype == "tls"),
                               dummy_archives=True)
        objs = gen_graph.emit(g, workdir)
        kind = rng.choice(["exe", "shared", "pie"])
        if ctype == "tls":
            kind = ["shared", "shared", "pie", "exe"][(index // len(CLASS_CYCLE)) % 4]
        argv = gen_graph.link_args(g, objs, "OUT", kind=kind, gc=rng.random() < 0.8)[2:]
        if kind != "exe":
            argv.append(f"--hash-style={rng.choice(['gnu', 'sysv', 'both'])}")
        if rng.random() < 0.3:
            argv.append("--export-dynamic")
        return ctype, argv, {"params": g.params, "kind": kind}
    if ctype == "str":
        w = gen_str.generate(rng, rng.choice(["small", "medium"]))
        w.unterminated = False
        for secs in w.sections:
            for s in secs:
                s["unterminated"] = False
        objs = gen_str.emit(w, workdir)
        return ctype, ["-static"] + objs, {"params": w.params}
    if ctype == "big":
        # Sections above wild's parallel-copy threshold (1,000,000 bytes) with sizes that are not a
        # multiple of any small thread count; non-zero contents.
        objs = []
        nsec = rng.randint(1, 3)
        info = {"sizes": []}
        for i in range(nsec):
            size = rng.choice([1_000_003, 1_000_037, 1_234_577, 2_000_003])
            info["sizes"].append(size)
            blob = os.path.join(workdir, f"blob{i}.bin")
            with open(blob, "wb") as f:
                f.write(bytes((b % 251) + 1 for b in rng.randbytes(size)))
            src = os.path.join(workdir, f"big{i}.s")
            with open(src, "w") as f:
                f.write(f'\t.section .rodata.big{i},"a",@progbits\n\t.globl big{i}\nbig{i}:\n'
                        f'\t.incbin "{blob}"\n\t.section .note.GNU-stack,"",@progbits\n')
            from .common import assemble
            obj = os.path.join(workdir, f"big{i}.o")
            assemble(src, obj)
            os.unlink(blob)
            objs.append(obj)
        src = os.path.join(workdir, "start.s")
        with open(src, "w") as f:
            f.write('\t.section .text._start,"ax",@progbits\n\t.globl _start\n_start:\n' +
                    "".join(f"\tleaq big{i}(%rip), %rax\n" for i in range(nsec)) +
                    "\tmovl $231, %eax\n\txorl %edi, %edi\n\tsyscall\n"
                    '\t.section .note.GNU-stack,"",@progbits\n')
        from .common import assemble
        sobj = os.path.join(workdir, "start.o")
        assemble(src, sobj)
        return ctype, ["-static", sobj] + objs, info
    if ctype == "dyn":
        d = gen_dyn.generate(rng, rng.choice(["small", "medium"]),
                             hash_style=["sysv", "gnu", "both"][(index // 3) % 3],
                             kind=["exe", "pie", "shared"][(index // 9) % 3])
        argv = gen_dyn.emit(d, workdir)
        return ctype, argv, {"params": d.params}
    # script: objects pulled in through linker scripts (INPUT/GROUP), archives and thin archives
    g = gen_graph.generate(rng, "small")
    objs = gen_graph.emit(g, workdir)
    argv = gen_dyn.wrap_inputs(rng, objs, workdir)
    return ctype, ["-static", "--gc-sections"] + [f"--undefined={g.nodes[i].name}"
                                                   for i in g.undefined_force] + argv, \
        {"params": g.params}


def run_job(job):
    seed, index = job["seed"], job["index"]
    rng = rng_for("det", seed, index)
    workdir = scratch_dir(f"d{index}")
    res = {"violations": [], "counters": {}, "distinct": [], "samples": [], "runs": 0,
           "steps": 0, "switches": 0}
    c = res["counters"]
    try:
        ctype, base, info = make_class(rng, workdir, job["tier"], index, job.get("ctype"))
        build_id = rng.choice(["none", "none", "fast", "sha1"])
        class_args = list(base) + [f"--build-id={build_id}"]
        c[f"class_{ctype}"] = 1
        c[f"buildid_{build_id}"] = 1
        vr = rng_for("det-var", seed, index)
        ref_hash = None
        ref_path = os.path.join(workdir, "ref.out")
        ref_desc = None
        prev_good = None
        only = job.get("only_variants")
        for v in range(job["schedules"]):
            threads = vr.choice([1, 2, 2, 3, 4, 8])
            fpg = vr.choice([None, None, 1, 2, 5])
            exp = vr.choice([None, None, "_,256", "2,1024,2,4", "_,_,1,1", "8,512,4,16"])
            strategy = vr.choice(STRATEGIES)
            pseed = vr.getrandbits(48)
            hash_seed = vr.getrandbits(60)
            prior = vr.choice(PRIOR_STATES)
            mode = vr.choice([None, None, "--update-in-place", "--no-update-in-place"])
            mmap = vr.choice([None, None, "--no-mmap-output-file"])
            fork = vr.random() < 0.25
            prior_bytes_seed = vr.getrandbits(32)
            # Forced variants (applied after the draws so that the draw sequence, and with it
            # every replay, is unchanged): a clean reference, then update-in-place over dirty files.
            if v == 0:
                prior, mode, mmap = "absent", None, None
            elif v == 1:
                prior, mode = "ff-longer", "--update-in-place"
                mmap = "--no-mmap-output-file" if index % 2 else None
            elif v == 2:
                prior, mode = "aa-exact", "--update-in-place"
            # Forced fallback paths through the system-call fault seam: the output cannot be mapped
            # (wild falls back to an in-memory image + write), and the write is short (write_all must
            # loop). A successful link must still produce the same bytes.
            sysfault = None
            if v == 3:
                sysfault, mmap = "mmaprw#1=ENODEV", None
                if index % 2 == 0:
                    prior, mode = "ff-longer", "--update-in-place"
            elif v == 4:
                sysfault, mmap = f"mmaprw#1=ENOMEM;write#1=short:{1 + prior_bytes_seed % 5000}", None
            if only is not None and v not in only:
                continue
            out = os.path.join(workdir, "out")
            busy = prepare_prior(prior, out, rng_for("prior", prior_bytes_seed), prev_good)
            argv = ["-o", out] + class_args + [f"--threads={threads}"]
            if not fork:
                argv.append("--no-fork")
            if exp:
                argv.append(f"--wild-experiments={exp}")
            if mode:
                argv.append(mode)
            if mmap:
                argv.append(mmap)
            env = {"WILD_FILES_PER_GROUP": str(fpg) if fpg else None}
            syslog = os.path.join(workdir, f"v{v}.syslog")
            if sysfault:
                env.update({"LD_PRELOAD": SIMSYS, "WILD_SIM_SYSFAULT": sysfault,
                            "WILD_SIM_SYSFAULT_DIR": workdir, "WILD_SIM_SYSFAULT_LOG": syslog})
            plan = Plan(pseed, strategy, log_level=1, hash_seed=hash_seed)
            r = sim_link(argv, workdir, plan, tag=f"v{v}", env_extra=env)
            if busy is not None:
                busy.kill()
                busy.wait()
            check_sim_health(r, f"det job {index} variant {v}")
            if sysfault:
                _, fired = read_syslog(syslog)
                c["sysfault_variants"] = c.get("sysfault_variants", 0) + 1
                c["sysfault_rules_fired"] = c.get("sysfault_rules_fired", 0) + len(fired)
                env = {k: v_ for k, v_ in env.items() if k not in ("LD_PRELOAD", "WILD_SIM_SYSFAULT_DIR",
                                                                   "WILD_SIM_SYSFAULT_LOG")}
            res["runs"] += 1
            res.setdefault("trace", []).append((v, r.status, r.steps, r.trace_hash))
            res["steps"] += r.steps
            res["switches"] += int(r.summary.get("switches", 0))
            for key in (f"threads_{threads}", f"prior_{prior}", f"mode_{mode}", f"mmap_{mmap}",
                        f"fork_{fork}", f"strategy_{strategy.split(':')[0]}"):
                c[key] = c.get(key, 0) + 1
            if int(r.summary.get("switches", 0)) > 0:
                res["distinct"].append(f"{index}:{r.trace_hash}")
            desc = {"family": "det",
                    "job": {k: job[k] for k in ("seed", "index", "tier", "schedules") if k in job},
                    "class": ctype, "info": info, "variant": v,
                    "argv": [a if not a.startswith("/") else os.path.basename(a) for a in argv],
                    "env": env, "plan": plan.to_json(), "prior": prior}
            if not res["samples"]:
                res["samples"].append(desc)
            if r.status != 0 and prior == "busy" and mode == "--update-in-place" and \
                    "Text file busy" in r.err_text():
                # The user insisted on writing in place and the kernel refuses while the file is
                # being executed: a legitimate, history-caused failure, not an outcome difference.
                c["busy_update_in_place_refused"] = c.get("busy_update_in_place_refused", 0) + 1
                continue
            if r.status != 0 and any(m in r.err_text() for m in ALLOC_ERR):
                res["violations"].append({
                    "prop": "C23", "clause": "size-accounting", "signature": f"det/alloc-error/{ctype}",
                    "detail": r.err_text()[-400:], "replay": desc})
            if r.status != 0:
                # Not a determinism question by itself; but a class whose link fails only sometimes
                # is a violation of "the result doesn't depend on the schedule".
                c["failed_runs"] = c.get("failed_runs", 0) + 1
                res.setdefault("failed", []).append((v, r.status, r.err_text()[-300:], desc))
                continue
            h = hashlib.sha256(open(out, "rb").read()).hexdigest()
            if ref_hash is None:
                ref_hash = h
                shutil.copyfile(out, ref_path)
                ref_desc = desc
                prev_good = ref_path
            elif h != ref_hash:
                sec, off, ndiff, where = first_diff_section(ref_path, out)
                hs = next((a for a in class_args if a.startswith("--hash-style")), "hash-style=default")
                sig = f"det/bytes-differ/{ctype}/{sec}/{hs.lstrip('-')}"
                d2 = dict(desc)
                d2["job"] = dict(desc["job"])
                d2["job"]["only_variants"] = [ref_desc["variant"], v]
                res["violations"].append({
                    "prop": "C06", "clause": "bytes-differ", "signature": sig,
                    "detail": f"variant {v} differs from variant {ref_desc['variant']} first at "
                              f"offset {off:#x} in {sec} ({ndiff} bytes differ {where}); "
                              f"ref argv {ref_desc['argv'][-6:]} vs {desc['argv'][-6:]} prior={prior}",
                    "replay": d2})
        # Model validation against the production twin (real rayon, real threads; built by
        # checks/build_twin.sh): same class, a few real executions. Real outputs that differ among
        # themselves are a C06 violation observed on real schedules; real outputs that agree with each
        # other but not with the simulated reference mean the simulator misrepresents wild (exit 2).
        if job.get("twin") and ref_hash is not None and os.path.exists(TWIN_WILD):
            twin_hashes = []
            for t, threads in enumerate((4, 1, 8)):
                tout = os.path.join(workdir, f"twin{t}.out")
                targv = ["-o", tout] + class_args + [f"--threads={threads}", "--no-fork"]
                r = sim_link(targv, workdir, Plan(1, "rr"), tag=f"twin{t}", wild=TWIN_WILD, pin=False)
                res["runs"] += 1
                c["twin_runs"] = c.get("twin_runs", 0) + 1
                if r.status != 0:
                    raise HarnessError(f"det job {index}: twin link failed ({r.status}) where the "
                                       f"simulated link succeeded: {r.err_text()[-300:]}")
                twin_hashes.append(hashlib.sha256(open(tout, "rb").read()).hexdigest())
            if len(set(twin_hashes)) > 1:
                sec, off, ndiff, where = first_diff_section(
                    os.path.join(workdir, "twin0.out"),
                    os.path.join(workdir, f"twin{[h != twin_hashes[0] for h in twin_hashes].index(True)}.out"))
                res["violations"].append({
                    "prop": "C06", "clause": "bytes-differ-real-threads",
                    "signature": f"det/twin-bytes-differ/{ctype}/{sec}",
                    "detail": f"production build (real rayon) produced different outputs for thread "
                              f"counts 4/1/8: first difference at {off:#x} in {sec} ({ndiff} bytes)",
                    "replay": dict(ref_desc, twin=True)})
            elif twin_hashes[0] != ref_hash:
                sec, off, ndiff, where = first_diff_section(ref_path, os.path.join(workdir, "twin0.out"))
                raise HarnessError(f"det job {index} ({ctype}): production twin output differs from the "
                                   f"simulated output at {off:#x} in {sec} ({ndiff} bytes {where}): the "
                                   f"rayon model or a seam misrepresents wild")
            else:
                c["twin_equal_classes"] = c.get("twin_equal_classes", 0) + 1
        failed = res.get("failed", [])
        if failed and ref_hash is not None:
            (v, status, err, desc) = failed[0]
            if status in (EXIT_DEADLOCK, EXIT_STEP_BUDGET, EXIT_INVARIANT):
                pass  # reported by C39/C40
            else:
                res["violations"].append({
                    "prop": "C06", "clause": "outcome-differs",
                    "signature": f"det/outcome-differs/{ctype}",
                    "detail": f"variant {v} failed (status {status}: {err}) while other variants of "
                              f"the same class succeeded", "replay": desc})
        if ref_hash is None:
            c["class_never_linked"] = 1
            if failed:
                res["never_linked_error"] = failed[0][2]
    finally:
        if not job.get("keep"):
            rm_rf(workdir)
    return res
