"""Concurrent links in one directory (C19 quantifier: "concurrent links in the same directory").

Two simulated linkers A and B work in the same directory, on outputs whose names share a stem or a
prefix (or on the very same output with the same inputs). The cross-process interleaving is decided
by the plan, not by the OS: B is started from a `cmd` fault of A (simrt runs an external command at
a chosen site or step while every thread of A is parked), and optionally B parks itself at a point q
of its own (a `cmd` fault that blocks on a fifo) until a second `cmd` fault of A releases it. The
explored interleavings are therefore
    A[..p1] B[..end] A[p1..]                      ("atomic": B runs completely inside a point of A)
    A[..p1] B[..q] A[p1..p2] B[q..end] A[p2..]     ("split")
with p1, p2, q drawn from the file-writer hook sites, the phase boundaries and random steps.

Oracles, after both (and their background workers) are gone: both exit 0; each output equals the
output of the same link run alone; nothing in the directory changed except the two outputs (siblings
with look-alike names, inputs); no stray temporary file."""
import os
import shlex
import shutil
import time

from . import family_fs
from .common import (EXIT_DEADLOCK, EXIT_INVARIANT, EXIT_STEP_BUDGET, HarnessError, Plan,
                     SIM_WILD, STRATEGIES, check_sim_health, my_cpu, rm_rf, rng_for, scratch_dir,
                     sha256_file, sim_link)

POINTS = ["fw_rename", "fw_create", "fw_send", "write_start", "write_body_done", "write_flushed",
          "write_unmapped", "after_set_size", "after_layout", "after_write", "before_verify",
          "after_depfile"]
PAIRS = [("libfoo.so", "libfoo.so.1"), ("prog", "prog.exe"), ("a.b.c", "a.b.d"), ("out", "out"),
         ("libfoo.so", "libfoo.delete"), ("x", ".x")]


def _point(rng):
    if rng.random() < 0.3:
        return f"step={rng.randint(1, 700)}"
    return f"site={rng.choice(POINTS)}"


ALWAYS = ["write_start", "write_body_done", "write_flushed", "write_unmapped", "after_set_size",
          "after_layout", "after_write", "before_verify"]


def _write_script(path, lines):
    with open(path, "w") as f:
        f.write("#!/bin/sh\n" + "\n".join(lines) + "\n")
    os.chmod(path, 0o755)


def run_job(job):
    prop, seed, index, tier = "C19", job["seed"], job["index"], job["tier"]
    rng = rng_for("conc", seed, index)
    res = {"violations": [], "counters": {}, "distinct": [], "samples": [], "runs": 0,
           "steps": 0, "switches": 0}
    c = res["counters"]
    root = scratch_dir(f"c{index}")
    try:
        out_a, out_b = PAIRS[index % len(PAIRS)]
        same = out_a == out_b
        # Workloads: A's inputs at top level, B's in sub/ (same inputs when both write one output).
        wa = family_fs.Workload(seed, 200000 + index, "ok", out_a)
        wb = wa if same else family_fs.Workload(seed, 300000 + index, "ok", out_b)
        try:
            scenarios = []
            if job.get("scenario"):
                scenarios = [job["scenario"]]
            else:
                for _ in range(job["schedules"]):
                    sc = {"mode": rng.choice(["atomic", "atomic", "split"]),
                          "p1": _point(rng), "p2": f"site={rng.choice(ALWAYS)}", "q": _point(rng),
                          "prior_a": rng.choice(["absent", "good", "unrelated"]),
                          "prior_b": rng.choice(["absent", "good", "unrelated"]),
                          "threads_a": rng.choice([2, 2, 4, 1]), "threads_b": rng.choice([2, 4, 1]),
                          "fork_a": rng.random() < 0.3, "fork_b": rng.random() < 0.3,
                          "wmode_a": rng.choice([None, None, "--update-in-place", "--no-update-in-place"]),
                          "wmode_b": rng.choice([None, None, "--update-in-place", "--no-update-in-place"]),
                          "strategy_a": rng.choice(STRATEGIES), "strategy_b": rng.choice(STRATEGIES),
                          "pseed_a": rng.getrandbits(48), "pseed_b": rng.getrandbits(48),
                          "siblings": rng.random() < 0.7}
                    if sc["mode"] == "split":
                        # B outlives the command that starts it: keep both links in one process
                        # each, so that "everything has exited" is observable.
                        sc["fork_a"] = sc["fork_b"] = False
                    scenarios.append(sc)
            n = 0
            for sc in scenarios:
                n += 1
                d = os.path.join(root, f"d{n}")
                ctl = os.path.join(root, f"ctl{n}")
                os.makedirs(ctl)
                shutil.copytree(wa.template, d)
                if not same:
                    shutil.copytree(wb.template, os.path.join(d, "sub"))
                in_b = wa.inputs if same else [os.path.join("sub", x) for x in wb.inputs]
                # prior outputs and look-alike siblings
                prng = rng_for("conc-prior", seed, index, n)
                past = time.time() - 1000
                for (out, prior, ref) in ((out_a, sc["prior_a"], wa.ref_out),
                                          (out_b, sc["prior_b"], wb.ref_out)):
                    p = os.path.join(d, out)
                    if os.path.exists(p):
                        continue
                    if prior == "good":
                        shutil.copyfile(ref, p)
                        os.chmod(p, 0o755)
                        os.utime(p, (past, past))
                    elif prior == "unrelated":
                        with open(p, "wb") as f:
                            f.write(b"unrelated previous content\n" * prng.randint(1, 300))
                        os.utime(p, (past, past))
                if sc["siblings"]:
                    for out in {out_a, out_b}:
                        stem = family_fs.stem_of(out)
                        for nm in (f"{stem}.delete", f"{out}.delete", f"{stem}.tmp", f"{out}x",
                                   f".{out}.1.wild-delete", f"{stem}.o.bak"):
                            p = os.path.join(d, nm)
                            if nm in (out_a, out_b) or os.path.exists(p):
                                continue
                            with open(p, "wb") as f:
                                f.write(family_fs.SIBLING_TEXT + nm.encode())
                            os.utime(p, (past, past))
                before = family_fs.snapshot(d)

                def argv_for(out, extra, inputs, threads, fork, wmode):
                    a = ["-o", out] + extra + inputs + [f"--threads={threads}"]
                    if not fork:
                        a.append("--no-fork")
                    if wmode:
                        a.append(wmode)
                    return a

                argv_a = argv_for(out_a, wa.extra, wa.inputs, sc["threads_a"], sc["fork_a"], sc["wmode_a"])
                argv_b = argv_for(out_b, wb.extra, in_b, sc["threads_b"], sc["fork_b"], sc["wmode_b"])
                # --- B: started from A's first cmd fault through a script -------------------------
                f_reached = os.path.join(ctl, "b_reached.fifo")
                f_go = os.path.join(ctl, "b_go.fifo")
                b_status = os.path.join(ctl, "b.status")
                b_plan_path = os.path.join(ctl, "b.plan")
                b_prefix = os.path.join(ctl, "b.sim")
                faults_b = []
                if sc["mode"] == "split":
                    os.mkfifo(f_reached)
                    os.mkfifo(f_go)
                    park = os.path.join(ctl, "b_park.sh")
                    parked = os.path.join(ctl, "b_parked")
                    _write_script(park, [f": > {shlex.quote(parked)}",
                                         f"echo reached > {shlex.quote(f_reached)}",
                                         f"cat {shlex.quote(f_go)} > /dev/null"])
                    faults_b.append(f"cmd@{sc['q']}@sh {park}")
                plan_b = Plan(sc["pseed_b"], sc["strategy_b"], faults=faults_b)
                plan_b.write(b_plan_path, b_prefix)
                run_b = os.path.join(ctl, "run_b.sh")
                env_b = (f"WILD_SIM_PLAN={shlex.quote(b_plan_path)} WILD_VERIF_HASH_SEED={plan_b.hash_seed} "
                         f"RAYON_NUM_THREADS=2 WILD_SIM_DEFAULT_THREADS=2 RUST_BACKTRACE=0 LC_ALL=C")
                cmd_b = (f"cd {shlex.quote(d)} && env -u MAKEFLAGS {env_b} setarch x86_64 -R taskset -c "
                         f"{my_cpu()} {shlex.quote(SIM_WILD)} " + " ".join(shlex.quote(x) for x in argv_b) +
                         f" > {shlex.quote(os.path.join(ctl, 'b.stdout'))} 2> "
                         f"{shlex.quote(os.path.join(ctl, 'b.stderr'))}; echo $? > {shlex.quote(b_status + '.tmp')}; "
                         # (renamed into place so that nobody ever reads a half-written status file)
                         f"mv {shlex.quote(b_status + '.tmp')} {shlex.quote(b_status)}")
                if sc["mode"] == "atomic":
                    _write_script(run_b, [cmd_b])
                    faults_a = [f"cmd@{sc['p1']}@sh {run_b}"]
                else:
                    # start B in the background; return once B parked at q or finished
                    _write_script(run_b, [
                        f": > {shlex.quote(os.path.join(ctl, 'b_started'))}",
                        f"( {cmd_b}; [ -e {shlex.quote(os.path.join(ctl, 'b_parked'))} ] || "
                        f"echo finished > {shlex.quote(f_reached)} ) > /dev/null 2>&1 &",
                        f"cat {shlex.quote(f_reached)} > /dev/null"])
                    release = os.path.join(ctl, "release_b.sh")
                    _write_script(release, [
                        # opening the fifo for writing blocks until B's `cat` reads it; if B has
                        # already finished nobody reads, so do not block in that case
                        # (p2 may come before p1 in A's run: then B has not been started yet)
                        f"[ -e {shlex.quote(os.path.join(ctl, 'b_started'))} ] || exit 0",
                        f"if [ ! -e {shlex.quote(b_status)} ]; then echo go > {shlex.quote(f_go)}; fi",
                        f"while [ ! -e {shlex.quote(b_status)} ]; do sleep 0.01; done"])
                    faults_a = [f"cmd@{sc['p1']}@sh {run_b}", f"cmd@{sc['p2']}@sh {release}"]
                plan_a = Plan(sc["pseed_a"], sc["strategy_a"], faults=faults_a)
                r = sim_link(argv_a, d, plan_a, tag="a", ctl_dir=ctl, timeout=300,
                             wait_descendants=(sc["mode"] == "atomic"))
                # If A never reached p2 (or p1), finish/clean up B ourselves.
                if sc["mode"] == "split" and os.path.exists(os.path.join(ctl, "b.plan")):
                    fired = r.summary.get("faults_fired", [])
                    started = any("Cmd" in f and "run_b" in f for f in fired)
                    if started and not os.path.exists(b_status):
                        deadline = time.time() + 120
                        released = False
                        while not os.path.exists(b_status) and time.time() < deadline:
                            if not released:
                                try:
                                    fd = os.open(f_go, os.O_WRONLY | os.O_NONBLOCK)
                                    os.write(fd, b"go\n")
                                    os.close(fd)
                                    released = True
                                except OSError:
                                    pass  # B's `cat` has not opened the fifo yet
                            time.sleep(0.01)
                        if not os.path.exists(b_status):
                            raise HarnessError(f"conc: B never finished: {sc}")
                        c["b_released_by_harness"] = c.get("b_released_by_harness", 0) + 1
                check_sim_health(r, f"conc job {index} scenario {sc}")
                time.sleep(0.02)
                res["runs"] += 1
                res["steps"] += r.steps
                res["switches"] += int(r.summary.get("switches", 0))
                desc = {"family": "conc", "job": {"prop": prop, "seed": seed, "index": index,
                                                  "tier": tier, "schedules": 0, "scenario": sc},
                        "outputs": [out_a, out_b]}
                if not res["samples"]:
                    res["samples"].append(desc)
                b_ran = os.path.exists(b_status)
                b_sum = {}
                try:
                    for line in open(b_prefix + ".summary"):
                        k, _, v = line.strip().partition("=")
                        b_sum[k] = v
                except FileNotFoundError:
                    pass
                res.setdefault("trace", []).append((n, r.status, r.steps, r.trace_hash, b_ran,
                                                    b_sum.get("steps"), b_sum.get("trace_hash")))
                c[f"mode_{sc['mode']}"] = c.get(f"mode_{sc['mode']}", 0) + 1
                if not b_ran:
                    c["b_never_started"] = c.get("b_never_started", 0) + 1
                else:
                    c["pairs_interleaved"] = c.get("pairs_interleaved", 0) + 1
                    c["same_output_pairs" if same else "distinct_output_pairs"] = \
                        c.get("same_output_pairs" if same else "distinct_output_pairs", 0) + 1
                    res["distinct"].append(f"{index}:{r.trace_hash}:{sc['p1']}:{sc['q']}:{sc['p2']}")
                after = family_fs.snapshot(d)

                def viol(clause, sig, detail):
                    res["violations"].append({"prop": prop, "clause": clause, "signature": sig,
                                              "detail": detail, "replay": desc})

                if r.status in (EXIT_DEADLOCK, EXIT_STEP_BUDGET, EXIT_INVARIANT):
                    shutil.rmtree(d, ignore_errors=True)
                    shutil.rmtree(ctl, ignore_errors=True)
                    continue
                st_b = None
                if b_ran:
                    try:
                        st_b = int(open(b_status).read().strip() or "-1")
                    except ValueError:
                        st_b = -1
                if r.status != 0:
                    viol("concurrent-link-failed", "conc/link-failed/A",
                         f"link A ({out_a}) exited {r.status} with B ({out_b}) interleaved at "
                         f"{sc['p1']}: {r.err_text()[-300:]}")
                if b_ran and st_b != 0:
                    try:
                        eb = open(os.path.join(ctl, "b.stderr"), errors="replace").read()[-300:]
                    except FileNotFoundError:
                        eb = ""
                    viol("concurrent-link-failed", "conc/link-failed/B",
                         f"link B ({out_b}) exited {st_b} when run inside A at {sc['p1']}: {eb}")
                # outputs equal to the outputs of the same links run alone
                if r.status == 0 and (not b_ran or st_b == 0):
                    for (who, out, ref) in (("A", out_a, wa.ref_out), ("B", out_b, wb.ref_out)):
                        if who == "B" and not b_ran:
                            continue
                        p = os.path.join(d, out)
                        if not os.path.exists(p):
                            viol("output-missing", f"conc/output-missing/{who}",
                                 f"{out} missing after both links exited 0")
                        elif sha256_file(p) != sha256_file(ref):
                            viol("output-differs", f"conc/output-differs/{who}/{'same' if same else 'distinct'}",
                                 f"{out} differs from the output of the same link run alone "
                                 f"(size {os.path.getsize(p)} vs {os.path.getsize(ref)})")
                declared = {out_a, out_b}
                for rel in sorted(set(before) | set(after)):
                    if rel in declared:
                        continue
                    b, a = before.get(rel), after.get(rel)
                    if b == a:
                        continue
                    what = "created" if b is None else ("deleted" if a is None else "modified")
                    import re
                    name = "<tmp-old-output>" if re.match(r"^\..*\.\d+\.wild-delete$", rel) else \
                        ("input" if rel.endswith(".o") and what != "created" else "sibling-or-other")
                    viol(f"undeclared-{what}", f"conc/{what}/{name}",
                         f"{rel} was {what} by two concurrent links to {out_a} and {out_b}; before {b} "
                         f"after {a}")
                shutil.rmtree(d, ignore_errors=True)
                shutil.rmtree(ctl, ignore_errors=True)
        finally:
            wa.close()
            if wb is not wa:
                wb.close()
    finally:
        rm_rf(root)
    return res
