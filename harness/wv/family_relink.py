"""Relink family (C21): link v1, start a process that executes it (execve) or maps it (dlopen) and
blocks having touched only its first pages, relink v2 to the same path with default options under a
simulated schedule, then let the old process walk pages it had not touched: it must still see v1."""
import os
import shutil
import struct
import subprocess

from .common import (EXIT_DEADLOCK, EXIT_INVARIANT, EXIT_STEP_BUDGET, HarnessError, Plan,
                     STRATEGIES, VERIF, assemble, check_sim_health, rm_rf, rng_for, run_cmd,
                     scratch_dir, sim_link)

HOST_SRC = r"""
#include <dlfcn.h>
#include <stdio.h>
#include <unistd.h>
int main(int argc, char **argv) {
  void *h = dlopen(argv[1], RTLD_NOW | RTLD_LOCAL);
  if (!h) { fprintf(stderr, "dlopen: %s\n", dlerror()); return 3; }
  unsigned long (*walk)(void) = (unsigned long (*)(void))dlsym(h, "walk");
  unsigned long (*first)(void) = (unsigned long (*)(void))dlsym(h, "first");
  if (!walk || !first) return 4;
  unsigned long f = first();
  char c = 'R';
  if (write(1, &c, 1) != 1) return 5;
  if (read(0, &c, 1) != 1) return 6;
  unsigned long v = walk() + f;
  if (write(1, &v, 8) != 8) return 7;
  return 0;
}
"""


def host_binary():
    """Builds (once) the dlopen host program with the system compiler."""
    d = os.path.join(VERIF, "scratch", "tools")
    os.makedirs(d, exist_ok=True)
    exe = os.path.join(d, "dlhost")
    if not os.path.exists(exe):
        src = os.path.join(d, f"dlhost.{os.getpid()}.c")
        with open(src, "w") as f:
            f.write(HOST_SRC)
        tmp = exe + f".{os.getpid()}"
        rc, o, e = run_cmd(["gcc", "-O1", "-o", tmp, src, "-ldl"])
        if rc != 0:
            raise HarnessError(f"cannot build dlopen host: {e.decode(errors='replace')[:400]}")
        os.replace(tmp, exe)
        os.unlink(src)
    return exe


def emit_version(d, tag, nfun, marker_base, kind):
    """Functions padded to a page each so that most pages are untouched until `walk` runs."""
    out = []
    for i in range(nfun):
        out.append(f'\t.section .text.w{i},"ax",@progbits')
        out.append("\t.p2align 12")
        out.append(f"\t.globl w{i}")
        out.append(f"\t.type w{i},@function")
        out.append(f"w{i}:")
        out.append(f"\tmovabsq $0x{marker_base + i:x}, %rax")
        out.append("\taddq %rax, %rbx")
        out.append("\tret")
        out.append("\t.p2align 12")
    # data pages too
    out.append('\t.section .data.pages,"aw",@progbits')
    out.append("\t.p2align 12")
    out.append("\t.globl dpages")
    out.append("dpages:")
    for i in range(4):
        out.append(f"\t.quad 0x{marker_base + 1000 + i:x}")
        out.append("\t.zero 4088")
    body = []
    for i in range(nfun):
        body.append(f"\tcall w{i}" if kind == "exe" else f"\tcall w{i}@PLT")
    for i in range(4):
        if kind == "exe":
            body.append(f"\taddq dpages+{i * 4096}(%rip), %rbx")
        else:
            body.append("\tmovq dpages@GOTPCREL(%rip), %rax")
            body.append(f"\taddq {i * 4096}(%rax), %rbx")
    if kind == "exe":
        out.append('\t.section .text._start,"ax",@progbits')
        out.append("\t.globl _start")
        out.append("_start:")
        out.append("\tandq $-16, %rsp")
        out.append("\tsubq $32, %rsp")
        out.append("\tmovb $82, (%rsp)")          # 'R'
        out.append("\tmovl $1, %eax\n\tmovl $1, %edi\n\tmovq %rsp, %rsi\n\tmovl $1, %edx\n\tsyscall")
        out.append("\txorl %eax, %eax\n\txorl %edi, %edi\n\tmovq %rsp, %rsi\n\tmovl $1, %edx\n\tsyscall")
        out.append("\txorl %ebx, %ebx")
        out += body
        out.append("\tmovq %rbx, (%rsp)")
        out.append("\tmovl $1, %eax\n\tmovl $1, %edi\n\tmovq %rsp, %rsi\n\tmovl $8, %edx\n\tsyscall")
        out.append("\tmovl $231, %eax\n\txorl %edi, %edi\n\tsyscall")
    else:
        out.append('\t.section .text.api,"ax",@progbits')
        out.append("\t.globl first")
        out.append("\t.type first,@function")
        out.append("first:")
        out.append(f"\tmovabsq $0x{marker_base + 5000:x}, %rax")
        out.append("\tret")
        out.append("\t.globl walk")
        out.append("\t.type walk,@function")
        out.append("walk:")
        out.append("\tpushq %rbx")
        out.append("\txorl %ebx, %ebx")
        out += body
        out.append("\tmovq %rbx, %rax")
        out.append("\tpopq %rbx")
        out.append("\tret")
    out.append('\t.section .note.GNU-stack,"",@progbits')
    src = os.path.join(d, f"{tag}.s")
    with open(src, "w") as f:
        f.write("\n".join(out) + "\n")
    obj = os.path.join(d, f"{tag}.o")
    assemble(src, obj)
    os.unlink(src)
    total = sum(marker_base + i for i in range(nfun)) + sum(marker_base + 1000 + i for i in range(4))
    if kind != "exe":
        total += marker_base + 5000
    return f"{tag}.o", total & 0xFFFFFFFFFFFFFFFF


def start_user(kind, path):
    argv = [path] if kind == "exe" else [host_binary(), path]
    p = subprocess.Popen(argv, stdin=subprocess.PIPE, stdout=subprocess.PIPE,
                         stderr=subprocess.PIPE)
    ready = p.stdout.read(1)
    if ready != b"R":
        err = p.stderr.read()
        p.kill()
        p.wait()
        raise HarnessError(f"user process did not start: {ready!r} {err[:300]!r}")
    return p


def finish_user(p):
    try:
        out, err = p.communicate(input=b"g", timeout=90)
    except subprocess.TimeoutExpired:
        p.kill()
        out, err = p.communicate()
        return None, "timeout"
    return out, p.returncode


def run_job(job):
    seed, index, tier = job["seed"], job["index"], job["tier"]
    rng = rng_for("relink", seed, index)
    res = {"violations": [], "counters": {}, "distinct": [], "samples": [], "runs": 0,
           "steps": 0, "switches": 0}
    c = res["counters"]
    root = scratch_dir(f"r{index}")
    ctl = os.path.join(root, "ctl")
    os.makedirs(ctl)
    try:
        scenarios = []
        if job.get("scenario"):
            scenarios = [job["scenario"]]
        else:
            for _ in range(job["schedules"]):
                scenarios.append({
                    "kind": ["exe", "shared"][index % 2],
                    "n1": rng.randint(3, 12), "grow": rng.choice([0, 0, 1, 5, -2]),
                    "threads": rng.choice([1, 2, 4]), "fork": rng.random() < 0.5,
                    "strategy": rng.choice(STRATEGIES), "pseed": rng.getrandbits(48),
                    "name": rng.choice(["prog", "libfoo.so", "plugin.so.1"]),
                    "via_symlink": rng.random() < 0.35,
                })
        n = 0
        for sc in scenarios:
            n += 1
            d = os.path.join(root, f"d{n}")
            os.makedirs(d)
            kind = sc["kind"]
            n2 = max(2, sc["n1"] + sc["grow"])
            o1, sum1 = emit_version(d, "v1", sc["n1"], 0x1111000000000000, kind)
            o2, sum2 = emit_version(d, "v2", n2, 0x2222000000000000, kind)
            base = ["-o", sc["name"]] + (["-static"] if kind == "exe" else ["-shared"])
            r1 = sim_link(base + [o1, "--no-fork", "--threads=2"], d, Plan(1, "rr"), tag="v1",
                          ctl_dir=ctl)
            check_sim_health(r1, "relink v1")
            if r1.status != 0:
                raise HarnessError(f"v1 link failed: {r1.err_text()[-300:]}")
            path = os.path.join(d, sc["name"])
            if sc.get("via_symlink"):
                # The output path is a symlink to the versioned file (libfoo.so -> libfoo.so.1).
                real = path + ".1"
                os.rename(path, real)
                os.symlink(os.path.basename(real), path)
                c["via_symlink"] = c.get("via_symlink", 0) + 1
            user = start_user(kind, path)
            try:
                argv = base + [o2, f"--threads={sc['threads']}"]
                if not sc["fork"]:
                    argv.append("--no-fork")
                plan = Plan(sc["pseed"], sc["strategy"])
                r2 = sim_link(argv, d, plan, tag="v2", ctl_dir=ctl)
                check_sim_health(r2, f"relink job {index} scenario {sc}")
            finally:
                out, rc = finish_user(user)
            res["runs"] += 1
            res["steps"] += r2.steps
            res["switches"] += int(r2.summary.get("switches", 0))
            if int(r2.summary.get("switches", 0)) > 0:
                res["distinct"].append(f"{index}:{r2.trace_hash}")
            desc = {"family": "relink", "job": {"prop": "C21", "seed": seed, "index": index,
                                                 "tier": tier, "schedules": 0, "scenario": sc}}
            if not res["samples"]:
                res["samples"].append(desc)
            c[f"kind_{kind}"] = c.get(f"kind_{kind}", 0) + 1
            c["relink_ok" if r2.status == 0 else "relink_failed"] = \
                c.get("relink_ok" if r2.status == 0 else "relink_failed", 0) + 1
            ev_kinds = [e for e in r2.events() if e[2] in ("fw_renamed", "fw_created")]
            if any(e[2] == "fw_renamed" and e[3] == 1 for e in ev_kinds):
                c["probe_old_output_renamed_away"] = c.get("probe_old_output_renamed_away", 0) + 1

            def viol(clause, sig, detail):
                res["violations"].append({"prop": "C21", "clause": clause, "signature": sig,
                                          "detail": detail, "replay": desc})

            if r2.status in (EXIT_DEADLOCK, EXIT_STEP_BUDGET, EXIT_INVARIANT):
                shutil.rmtree(d, ignore_errors=True)
                continue
            want1 = struct.pack("<Q", sum1)
            if rc != 0 or out != want1:
                viol("old-process-disturbed", f"relink/old-process/{kind}",
                     f"process using v1 ({kind}) exited {rc} and printed "
                     f"{(out or b'').hex()} instead of {want1.hex()} after the relink (relink status "
                     f"{r2.status})")
            if r2.status == 0:
                try:
                    fresh = start_user(kind, path)
                    out2, rc2 = finish_user(fresh)
                except HarnessError as e:
                    out2, rc2 = b"", str(e)[:100]
                want2 = struct.pack("<Q", sum2)
                if rc2 != 0 or out2 != want2:
                    viol("new-output-wrong", f"relink/new-output/{kind}",
                         f"relink exited 0 but a fresh process printed {(out2 or b'').hex()} "
                         f"(exit {rc2}) instead of v2's {want2.hex()}")
            shutil.rmtree(d, ignore_errors=True)
    finally:
        rm_rf(root)
    return res
