"""Parser/checker for .eh_frame and .eh_frame_hdr in a linked output (C10)."""
import struct


def _uleb(data, off):
    r = 0
    shift = 0
    while True:
        b = data[off]
        off += 1
        r |= (b & 0x7F) << shift
        shift += 7
        if not (b & 0x80):
            return r, off


def _sleb(data, off):
    r = 0
    shift = 0
    while True:
        b = data[off]
        off += 1
        r |= (b & 0x7F) << shift
        shift += 7
        if not (b & 0x80):
            if b & 0x40:
                r -= 1 << shift
            return r, off


def _read_enc(data, off, enc, pc, datarel_base):
    """Reads an encoded pointer located at file-relative `off` whose vaddr is `pc`."""
    if enc == 0xFF:
        return None, off
    fmt = enc & 0x0F
    if fmt == 0x00:
        v, = struct.unpack_from("<Q", data, off)
        n = 8
    elif fmt == 0x03:
        v, = struct.unpack_from("<I", data, off)
        n = 4
    elif fmt == 0x04:
        v, = struct.unpack_from("<Q", data, off)
        n = 8
    elif fmt == 0x0B:
        v, = struct.unpack_from("<i", data, off)
        n = 4
    elif fmt == 0x0C:
        v, = struct.unpack_from("<q", data, off)
        n = 8
    elif fmt == 0x02:
        v, = struct.unpack_from("<H", data, off)
        n = 2
    elif fmt == 0x0A:
        v, = struct.unpack_from("<h", data, off)
        n = 2
    else:
        raise ValueError(f"unsupported pointer format {enc:#x}")
    app = enc & 0x70
    if app == 0x10:
        v += pc
    elif app == 0x30:
        v += datarel_base
    elif app != 0:
        raise ValueError(f"unsupported pointer application {enc:#x}")
    return v & 0xFFFFFFFFFFFFFFFF, off + n


def parse_eh_frame(elf):
    """Returns (fdes, problems) where fdes = list of dict(addr, pc_begin, pc_range)."""
    sec = elf.section(".eh_frame")
    fdes = []
    problems = []
    if sec is None or sec.size == 0:
        return fdes, problems
    data = elf.section_data(sec)
    cies = {}
    off = 0
    while off + 4 <= len(data):
        start = off
        length, = struct.unpack_from("<I", data, off)
        off += 4
        if length == 0:
            continue  # zero terminator (crtend-style); may legitimately appear mid-section
        if length == 0xFFFFFFFF:
            length, = struct.unpack_from("<Q", data, off)
            off += 8
        body = off
        end = body + length
        if end > len(data):
            problems.append(f".eh_frame record at {start:#x} runs past the section")
            break
        cie_id, = struct.unpack_from("<I", data, body)
        if cie_id == 0:
            # CIE
            p = body + 4
            version = data[p]
            p += 1
            aug_end = data.index(b"\0", p)
            aug = data[p:aug_end].decode("latin-1")
            p = aug_end + 1
            if version >= 4:
                p += 2
            _, p = _uleb(data, p)
            _, p = _sleb(data, p)
            if version == 1:
                p += 1
            else:
                _, p = _uleb(data, p)
            fde_enc = 0x00
            lsda_enc = None
            personality = None
            if aug.startswith("z"):
                _alen, p = _uleb(data, p)
                for ch in aug[1:]:
                    if ch == "R":
                        fde_enc = data[p]
                        p += 1
                    elif ch == "L":
                        lsda_enc = data[p]
                        p += 1
                    elif ch == "P":
                        penc = data[p]
                        p += 1
                        personality, p = _read_enc(data, p, penc, sec.addr + p, 0)
                    elif ch == "S" or ch == "B":
                        pass
            cies[start] = (fde_enc, aug, lsda_enc, personality)
        else:
            cie_off = body - cie_id
            if cie_off not in cies:
                problems.append(f"FDE at {start:#x} refers to CIE at {cie_off:#x} which is not a CIE")
                off = end
                continue
            enc, aug, lsda_enc, personality = cies[cie_off]
            p = body + 4
            pc_begin, p2 = _read_enc(data, p, enc, sec.addr + p, 0)
            pc_range, p3 = _read_enc(data, p2, enc & 0x0F, 0, 0)
            lsda = None
            if aug.startswith("z"):
                _alen, p4 = _uleb(data, p3)
                if lsda_enc is not None and lsda_enc != 0xFF:
                    lsda, _ = _read_enc(data, p4, lsda_enc, sec.addr + p4, 0)
            fdes.append({"addr": sec.addr + start, "pc_begin": pc_begin, "pc_range": pc_range,
                         "cie": cie_off, "personality": personality, "lsda": lsda})
        off = end
    return fdes, problems


def parse_hdr(elf):
    sec = elf.section(".eh_frame_hdr")
    if sec is None or sec.size == 0:
        return None
    data = elf.section_data(sec)
    version, eh_enc, cnt_enc, tbl_enc = data[0], data[1], data[2], data[3]
    off = 4
    eh_ptr, off = _read_enc(data, off, eh_enc, sec.addr + off, sec.addr)
    count, off = _read_enc(data, off, cnt_enc, sec.addr + off, sec.addr)
    table = []
    if count is not None and tbl_enc != 0xFF:
        for _ in range(count):
            if off + 8 > len(data):
                break
            loc, off = _read_enc(data, off, tbl_enc, sec.addr + off, sec.addr)
            fde, off = _read_enc(data, off, tbl_enc, sec.addr + off, sec.addr)
            table.append((loc, fde))
    return {"version": version, "eh_frame_ptr": eh_ptr, "count": count, "table": table,
            "size": len(data)}


def check(elf, g, reach, syms):
    """Returns (problems, stats)."""
    problems = []
    stats = {}
    fdes, p = parse_eh_frame(elf)
    problems += p
    hdr = parse_hdr(elf)
    stats["fdes"] = len(fdes)
    if hdr is None:
        if fdes:
            problems.append("FDEs present but no .eh_frame_hdr")
        return problems, stats
    ehs = elf.section(".eh_frame")
    if ehs is not None and hdr["eh_frame_ptr"] != ehs.addr:
        problems.append(f".eh_frame_hdr points at {hdr['eh_frame_ptr']:#x}, .eh_frame is at "
                        f"{ehs.addr:#x}")
    if hdr["count"] != len(fdes):
        problems.append(f".eh_frame_hdr fde_count {hdr['count']} != {len(fdes)} FDEs in .eh_frame")
    if len(hdr["table"]) != (hdr["count"] or 0):
        problems.append("search table truncated")
    by_addr = {f["addr"]: f for f in fdes}
    prev = None
    for (loc, fde_addr) in hdr["table"]:
        if prev is not None and loc <= prev:
            problems.append(f"search table not strictly sorted at {loc:#x}")
            break
        prev = loc
    for (loc, fde_addr) in hdr["table"]:
        f = by_addr.get(fde_addr)
        if f is None:
            problems.append(f"table entry {loc:#x} -> {fde_addr:#x} is not an FDE")
            break
        if f["pc_begin"] != loc:
            problems.append(f"table entry {loc:#x} points at FDE for {f['pc_begin']:#x}")
            break
    # model: every retained function has exactly one FDE with exact range
    func_syms = {}
    for name, s in syms.items():
        if s.type == 2:  # STT_FUNC
            func_syms.setdefault(s.value, s)
    cover = {}
    for f in fdes:
        cover[f["pc_begin"]] = cover.get(f["pc_begin"], 0) + 1
        s = func_syms.get(f["pc_begin"])
        if s is None:
            problems.append(f"FDE for {f['pc_begin']:#x} does not start at a retained function")
        elif s.size != f["pc_range"]:
            problems.append(f"FDE for {s.name} has range {f['pc_range']} but the function is "
                            f"{s.size} bytes")
    need = ["_start"] + [g.nodes[i].name for i in sorted(reach) if g.nodes[i].kind == "func"]
    for name in need:
        s = syms.get(name)
        if s is None:
            continue  # reported by C05
        n = cover.get(s.value, 0)
        if n != 1:
            problems.append(f"retained function {name} has {n} FDEs")
    stats["checked_functions"] = len(need)
    # Functions with a personality and an LSDA: the FDE must use a CIE whose personality pointer is the
    # address of that personality routine, and its LSDA pointer must address the bytes of that
    # function's `.gcc_except_table` section (which nothing else references, so this is also a
    # reachability check through .eh_frame).
    from .gen_graph import lsda_marker
    by_pc = {f["pc_begin"]: f for f in fdes}
    nl = 0
    for i in sorted(reach):
        n = g.nodes[i]
        if n.kind != "func" or getattr(n, "lsda", None) is None:
            continue
        s = syms.get(n.name)
        if s is None:
            continue
        f = by_pc.get(s.value)
        if f is None:
            continue  # already reported above
        nl += 1
        pers = syms.get(f"pers_{n.lsda}")
        if pers is None:
            problems.append(f"personality routine pers_{n.lsda} of retained function {n.name} is "
                            f"missing from the output")
        elif f["personality"] != pers.value:
            problems.append(f"FDE of {n.name}: CIE personality pointer {f['personality']} is not "
                            f"pers_{n.lsda} ({pers.value:#x})")
        if f["lsda"] is None:
            problems.append(f"FDE of {n.name} has no LSDA pointer")
        else:
            got = elf.read_vaddr(f["lsda"], 8)
            want = lsda_marker(n).to_bytes(8, "little")
            if got != want:
                problems.append(f"FDE of {n.name}: LSDA pointer {f['lsda']:#x} does not address that "
                                f"function's LSDA (found {got.hex() if got else None})")
    stats["lsda_functions_checked"] = nl
    return problems, stats


def check_structure(elf):
    """Model-free part of C10: .eh_frame_hdr count == FDEs, table strictly sorted, every entry
    points at an FDE whose pc_begin is the entry's address."""
    problems = []
    fdes, p = parse_eh_frame(elf)
    problems += p
    hdr = parse_hdr(elf)
    if hdr is None:
        return problems
    ehs = elf.section(".eh_frame")
    if ehs is not None and hdr["eh_frame_ptr"] != ehs.addr:
        problems.append(".eh_frame_hdr does not point at .eh_frame")
    if hdr["count"] != len(fdes):
        problems.append(f".eh_frame_hdr fde_count {hdr['count']} != {len(fdes)} FDEs in .eh_frame")
    by_addr = {f["addr"]: f for f in fdes}
    prev = None
    for (loc, fde_addr) in hdr["table"]:
        if prev is not None and loc <= prev:
            problems.append(f"search table not strictly sorted at {loc:#x}")
            break
        prev = loc
        f = by_addr.get(fde_addr)
        if f is None:
            problems.append(f"table entry {loc:#x} -> {fde_addr:#x} is not an FDE")
            break
        if f["pc_begin"] != loc:
            problems.append(f"table entry {loc:#x} points at FDE for {f['pc_begin']:#x}")
            break
    return problems
