"""graphgen: random reference graphs as GNU assembler objects, with their reachability model.

Every node is one section (function-sections style) with a unique 8-byte marker and a uniquely named
symbol. The harness keeps the graph, so it knows the closure a correct linker must keep and the
checksum the linked program must print. See DESIGN.md §3.6.
"""
import os

from .common import assemble

MARK_BASE = 0x5EED000000000000


class Node:
    def __init__(self, idx, obj, kind):
        self.idx = idx
        self.obj = obj
        self.kind = kind  # 'func' | 'data' | 'setmember'
        self.local = False  # local symbol: only reachable from same object
        self.comdat = None  # group name, or None
        self.retain = False
        self.init_array = False
        self.set = None  # for setmember: set index
        self.edges = []  # (kind, target)  kind in call, secsym, got_data, data_ptr_call, weak, startstop
        self.name = None
        self.cfi = True
        self.hidden = False     # STV_HIDDEN global (never exported; may be shadowed by a shared lib)
        self.tls_vis = None     # for kind 'tls': default | hidden | protected
        self.lsda = None        # None, or 0/1: the function has an LSDA and uses personality pers_<n>

    @property
    def marker(self):
        return MARK_BASE + self.idx + 1

    @property
    def section(self):
        if self.kind == "func":
            return f".text.{self.name}"
        if self.kind == "data":
            return f".data.{self.name}"
        if self.kind == "tls":
            return f".tdata.{self.name}"
        return f"set{self.set}"


class Graph:
    def __init__(self):
        self.nodes = []
        self.nobj = 0
        self.roots = []  # node indices called by _start
        self.nsets = 0
        self.weak_undefined = []  # names
        self.undefined_force = []  # node idx forced with --undefined
        self.params = {}


def generate(rng, size="small", force_tls=False, dummy_archives=False):
    g = Graph()
    if size == "small":
        nobj = rng.randint(3, 10)
        per = (1, 8)
    elif size == "medium":
        nobj = rng.randint(8, 25)
        per = (1, 14)
    else:
        nobj = rng.randint(20, 60)
        per = (1, 30)
    g.nobj = nobj
    g.nsets = rng.choice([0, 1, 2, 3])
    p_local = rng.choice([0.0, 0.15, 0.3])
    p_data = rng.choice([0.1, 0.25])
    p_comdat = rng.choice([0.0, 0.1])
    p_retain = rng.choice([0.0, 0.05])
    p_init = rng.choice([0.0, 0.05])
    density = rng.choice([0.8, 1.5, 2.5])
    p_cross = rng.choice([0.3, 0.6, 0.9])
    g.params = dict(nobj=nobj, nsets=g.nsets, p_local=p_local, p_data=p_data, p_comdat=p_comdat,
                    p_retain=p_retain, p_init=p_init, density=density, p_cross=p_cross, size=size)
    by_obj = [[] for _ in range(nobj)]
    for o in range(nobj):
        for _ in range(rng.randint(*per)):
            kind = "data" if rng.random() < p_data else "func"
            n = Node(len(g.nodes), o, kind)
            n.name = f"{'f' if kind == 'func' else 'd'}{n.idx}"
            if kind == "func":
                n.local = rng.random() < p_local
                if not n.local and rng.random() < p_retain:
                    n.retain = True
                if not n.local and rng.random() < p_init:
                    n.init_array = True
            g.nodes.append(n)
            by_obj[o].append(n.idx)
    # set members
    for s in range(g.nsets):
        members = rng.randint(1, min(6, nobj))
        for o in rng.sample(range(nobj), members):
            n = Node(len(g.nodes), o, "setmember")
            n.set = s
            n.name = f"m{n.idx}"
            n.local = True
            g.nodes.append(n)
            by_obj[o].append(n.idx)
    # COMDAT duplicates: a function defined identically in a second object.
    g.comdat_dups = []  # (original idx, duplicate obj)
    funcs = [n for n in g.nodes if n.kind == "func" and not n.local and not n.retain
             and not n.init_array]
    for n in funcs:
        if nobj > 1 and rng.random() < p_comdat:
            n.comdat = f"grp_{n.name}"
            other = rng.choice([o for o in range(nobj) if o != n.obj])
            g.comdat_dups.append((n.idx, other))
    # edges
    all_funcs = [n.idx for n in g.nodes if n.kind == "func"]
    all_data = [n.idx for n in g.nodes if n.kind == "data"]
    for n in g.nodes:
        if n.kind == "setmember":
            continue
        same = [i for i in by_obj[n.obj] if g.nodes[i].kind != "setmember"]
        k = int(rng.random() * density * 2)
        for _ in range(k):
            cross = rng.random() < p_cross
            if n.kind == "func":
                choice = rng.random()
                if choice < 0.6 and all_funcs:
                    pool = [i for i in all_funcs if (g.nodes[i].obj != n.obj) == cross
                            and (not g.nodes[i].local or g.nodes[i].obj == n.obj)]
                    if not pool:
                        continue
                    t = rng.choice(pool)
                    tn = g.nodes[t]
                    if tn.obj == n.obj and not tn.comdat and rng.random() < 0.4:
                        n.edges.append(("secsym", t))
                    else:
                        n.edges.append(("call", t))
                elif choice < 0.8 and all_data:
                    t = rng.choice(all_data)
                    n.edges.append(("got_data", t))
                elif choice < 0.9 and g.nsets:
                    n.edges.append(("startstop", rng.randrange(g.nsets)))
                else:
                    n.edges.append(("weak", None))
            else:
                # data node: pointers to functions
                pool = [i for i in all_funcs if not g.nodes[i].local or g.nodes[i].obj == n.obj]
                if pool:
                    n.edges.append(("ptr", rng.choice(pool)))
    # comdat-dup edges: copy of the original's edges is emitted textually; locals/secsym edges can't
    # be copied into another object, so comdat nodes only keep global-call / got / startstop edges.
    for (i, _o) in g.comdat_dups:
        n = g.nodes[i]
        n.edges = [e for e in n.edges if e[0] in ("call", "got_data", "startstop", "weak")
                   and (e[1] is None or e[0] == "startstop" or not g.nodes[e[1]].local)]
    # roots
    cands = [n.idx for n in g.nodes if n.kind == "func" and not n.local]
    if not cands:
        n0 = [n for n in g.nodes if n.kind == "func"]
        if not n0:
            n = Node(len(g.nodes), 0, "func")
            n.name = f"f{n.idx}"
            g.nodes.append(n)
            by_obj[0].append(n.idx)
        else:
            n0[0].local = False
        cands = [n.idx for n in g.nodes if n.kind == "func" and not n.local]
    g.roots = rng.sample(cands, min(len(cands), rng.randint(1, 3)))
    if rng.random() < 0.3:
        extra = [i for i in cands if i not in g.roots]
        if extra:
            g.undefined_force = [rng.choice(extra)]
    # Hidden functions: global within the link, never exported. Some of them are also *defined by a
    # shared library* (libshadow.so) in the dynamic-executable kind, which makes the library's group
    # send export requests for names that must not be exported.
    p_hidden = rng.choice([0.0, 0.2, 0.4])
    for n in g.nodes:
        if n.kind == "func" and not n.local and not n.comdat and not n.retain \
                and not n.init_array and n.idx not in g.roots and n.idx not in g.undefined_force \
                and rng.random() < p_hidden:
            n.hidden = True
    hidden = [n.idx for n in g.nodes if n.hidden]
    g.shadow_defs = rng.sample(hidden, min(len(hidden), rng.randint(0, 6))) if hidden else []
    exported = [n.idx for n in g.nodes if n.kind == "func" and not n.local and not n.hidden
                and not n.comdat]
    g.shadow_refs = rng.sample(exported, min(len(exported), rng.randint(0, 6))) if exported else []
    # TLS variables with different visibilities, accessed (GD, IE, TLSDESC) from code that is kept
    # but never executed (freestanding programs have no TLS set up).
    g.tls = []
    want_tls = rng.random() < 0.5
    if want_tls or force_tls:
        for ti in range(rng.randint(3, 6) if force_tls else rng.randint(1, 4)):
            n = Node(len(g.nodes), rng.randrange(nobj), "tls")
            n.name = f"t{n.idx}"
            n.tls_vis = rng.choice(["default", "hidden", "protected"])
            if force_tls and ti < 3:
                n.tls_vis = ["default", "hidden", "protected"][ti]
            g.nodes.append(n)
            by_obj[n.obj].append(n.idx)
            g.tls.append(n.idx)
        users = [n for n in g.nodes if n.kind == "func"]
        for t in g.tls:
            for u in rng.sample(users, min(len(users), rng.randint(1, 3))):
                u.edges.append(("tls", (t, rng.choice(["gd", "ie", "desc"]))))
            if force_tls and users:
                # every access model from a root (so that it is retained under --gc-sections)
                roots = [g.nodes[r] for r in g.roots if g.nodes[r].kind == "func"] or users
                for m in ("gd", "ie", "desc"):
                    rng.choice(roots).edges.append(("tls", (t, m)))
    g.params.update(p_hidden=p_hidden, shadow_defs=len(g.shadow_defs), shadow_refs=len(g.shadow_refs),
                    tls=len(g.tls))
    g.by_obj = by_obj
    # crtend-style object: its .eh_frame is just a 4-byte zero terminator. Placed anywhere on the
    # command line (after object `term_after`), so FDE-bearing objects may follow it.
    g.term_after = rng.randrange(nobj) if rng.random() < 0.35 else None
    g.params["term_after"] = g.term_after
    # Archives whose members nothing references (never loaded), placed between the objects: input
    # groups then mix loaded objects with not-loaded archive entries, and objects that are reachable
    # only through __start_/__stop_ symbols may sit *after* such entries in their group.
    g.dummy_archives = []
    if dummy_archives and rng.random() < 0.6:
        for k in range(rng.randint(1, 4)):
            # Half of them sit in front of the last object ("... libunused.a tail.o"), whose input
            # group is then typically the last one to be activated.
            before = nobj - 1 if rng.random() < 0.5 else rng.randrange(nobj)
            g.dummy_archives.append((before, rng.randint(1, 3), rng.random() < 0.3))
            if g.nsets:
                # ... and the object behind the archive contributes to a start/stop set, so that
                # part of it is reachable through __start_/__stop_ symbols only.
                n = Node(len(g.nodes), before, "setmember")
                n.set = rng.randrange(g.nsets)
                n.name = f"m{n.idx}"
                n.local = True
                g.nodes.append(n)
                by_obj[before].append(n.idx)
    g.params["dummy_archives"] = len(g.dummy_archives)
    # Unwind information of the C++ kind: some functions get a personality routine and a language-
    # specific data area. That gives two more CIE shapes ("zPLR", one per personality), a relocated
    # pointer from the CIE to the personality function and one from the FDE to a `.gcc_except_table`
    # section that is referenced from nowhere else.
    p_lsda = rng.choice([0.0, 0.0, 0.15, 0.4])
    nl = 0
    for n in g.nodes:
        if n.kind == "func" and not n.comdat and rng.random() < p_lsda:
            n.lsda = rng.randrange(2)
            nl += 1
    g.params["lsda_funcs"] = nl
    return g


def closure(g, extra_roots=()):
    """Reachable node set: from _start roots, init_array functions, retained sections,
    --undefined symbols."""
    roots = set(g.roots) | set(extra_roots) | set(g.undefined_force)
    for n in g.nodes:
        if n.retain or n.init_array:
            roots.add(n.idx)
    seen = set()
    stack = list(roots)
    sets_needed = set()
    while stack:
        i = stack.pop()
        if i in seen:
            continue
        seen.add(i)
        for (k, t) in g.nodes[i].edges:
            if k in ("call", "secsym", "got_data", "ptr"):
                if t not in seen:
                    stack.append(t)
            elif k == "startstop":
                if t not in sets_needed:
                    sets_needed.add(t)
                    for m in g.nodes:
                        if m.kind == "setmember" and m.set == t and m.idx not in seen:
                            stack.append(m.idx)
    return seen, sets_needed


def expected_checksum(g):
    """Checksum printed by the program: simulates execution order-independently."""
    total = 0
    visited = set()
    # init_array functions are NOT run (no libc); only _start roots execute.
    stack = list(g.roots)
    # Execution is a DFS, but the sum is order independent: each function contributes once.
    while stack:
        i = stack.pop()
        n = g.nodes[i]
        if n.kind != "func" or i in visited:
            continue
        visited.add(i)
        total += n.marker
        for (k, t) in n.edges:
            if k in ("call", "secsym"):
                stack.append(t)
            elif k == "got_data":
                d = g.nodes[t]
                total += d.marker
                # call through each function pointer stored in the data node
                for (k2, t2) in d.edges:
                    if k2 == "ptr":
                        stack.append(t2)
            elif k == "startstop":
                for m in g.nodes:
                    if m.kind == "setmember" and m.set == t:
                        total += m.marker
    return total & 0xFFFFFFFFFFFFFFFF


def lsda_marker(n):
    return 0x15DA000000000000 + n.idx


def _emit_func(g, n, out, as_comdat_copy=False):
    name = n.name
    if n.comdat:
        out.append(f'\t.section .text.{name},"axG",@progbits,{n.comdat},comdat')
    elif n.retain:
        out.append(f'\t.section .text.{name},"axR",@progbits')
    else:
        out.append(f'\t.section .text.{name},"ax",@progbits')
    if not n.local:
        if n.comdat:
            out.append(f"\t.weak {name}")
        else:
            out.append(f"\t.globl {name}")
        if n.hidden:
            out.append(f"\t.hidden {name}")
    out.append(f"\t.type {name},@function")
    out.append(f"{name}:")
    out.append("\t.cfi_startproc")
    if getattr(n, "lsda", None) is not None and not as_comdat_copy:
        out.append(f"\t.cfi_personality 0x1b, pers_{n.lsda}")
        out.append(f"\t.cfi_lsda 0x1b, .Llsda_{n.idx}")
    out.append(f"\tcmpb $0, visited+{n.idx}(%rip)")
    out.append("\tjne 99f")
    out.append(f"\tmovb $1, visited+{n.idx}(%rip)")
    out.append(f"\tmovabsq $0x{n.marker:x}, %rax")
    out.append("\taddq %rax, checksum(%rip)")
    lbl = 0
    for (k, t) in n.edges:
        lbl += 1
        if k == "call":
            out.append(f"\tcall {g.nodes[t].name}")
        elif k == "secsym":
            out.append(f"\tleaq {g.nodes[t].section}(%rip), %rax")
            out.append("\tcall *%rax")
        elif k == "got_data":
            d = g.nodes[t]
            out.append(f"\tmovq {d.name}@GOTPCREL(%rip), %rbx")
            out.append("\tmovq (%rbx), %rax")
            out.append("\taddq %rax, checksum(%rip)")
            nptr = sum(1 for e in d.edges if e[0] == "ptr")
            for j in range(nptr):
                out.append("\tpushq %rbx")
                out.append(f"\tmovq {8 * (j + 1)}(%rbx), %rax")
                out.append("\tcall *%rax")
                out.append("\tpopq %rbx")
        elif k == "weak":
            w = f"wk_{n.idx}_{lbl}"
            out.append(f"\t.weak {w}")
            out.append(f"\tmovq {w}@GOTPCREL(%rip), %rax")
            out.append("\ttestq %rax, %rax")
            out.append(f"\tjz {100 + lbl}f")
            out.append("\tcall *%rax")
            out.append(f"{100 + lbl}:")
        elif k == "tls":
            # keep (but never execute) a helper that accesses a TLS variable
            if not n.comdat:
                out.append(f"\tleaq tl_{n.idx}_{lbl}(%rip), %rax")
        elif k == "startstop":
            out.append(f"\tleaq __start_set{t}(%rip), %rsi")
            out.append(f"\tleaq __stop_set{t}(%rip), %rdi")
            out.append(f"{300 + lbl}:")
            out.append("\tcmpq %rdi, %rsi")
            out.append(f"\tjae {400 + lbl}f")
            out.append("\tmovq (%rsi), %rax")
            out.append("\taddq %rax, checksum(%rip)")
            out.append("\taddq $8, %rsi")
            out.append(f"\tjmp {300 + lbl}b")
            out.append(f"{400 + lbl}:")
    out.append("99:")
    out.append("\tret")
    out.append("\t.cfi_endproc")
    out.append(f"\t.size {name}, .-{name}")
    if getattr(n, "lsda", None) is not None and not as_comdat_copy:
        out.append(f'\t.section .gcc_except_table.{name},"a",@progbits')
        out.append("\t.p2align 2")
        out.append(f".Llsda_{n.idx}:")
        out.append(f"\t.quad 0x{lsda_marker(n):x}")
    if not as_comdat_copy and not n.comdat:
        lbl2 = 0
        for (k, t) in n.edges:
            lbl2 += 1
            if k != "tls":
                continue
            (ti, model) = t
            tn = g.nodes[ti].name
            out.append(f'\t.section .text.tl_{n.idx}_{lbl2},"ax",@progbits')
            out.append(f"\t.type tl_{n.idx}_{lbl2},@function")
            out.append(f"tl_{n.idx}_{lbl2}:")
            if model == "gd":
                out.append("\t.byte 0x66")
                out.append(f"\tleaq {tn}@tlsgd(%rip), %rdi")
                out.append("\t.value 0x6666")
                out.append("\trex64")
                out.append("\tcall __tls_get_addr@PLT")
            elif model == "ie":
                out.append(f"\tmovq {tn}@gottpoff(%rip), %rax")
                out.append("\tmovq %fs:(%rax), %rax")
            else:
                out.append(f"\tleaq {tn}@tlsdesc(%rip), %rax")
                out.append(f"\tcall *{tn}@tlscall(%rax)")
            out.append("\tret")
            out.append(f"\t.size tl_{n.idx}_{lbl2}, .-tl_{n.idx}_{lbl2}")
    if n.init_array:
        out.append('\t.section .init_array,"aw",@init_array')
        out.append("\t.p2align 3")
        out.append(f"\t.quad {name}")


def _emit_data(g, n, out):
    out.append(f'\t.section .data.{n.name},"aw",@progbits')
    out.append("\t.p2align 3")
    out.append(f"\t.globl {n.name}")
    out.append(f"\t.type {n.name},@object")
    out.append(f"{n.name}:")
    out.append(f"\t.quad 0x{n.marker:x}")
    for (k, t) in n.edges:
        if k == "ptr":
            out.append(f"\t.quad {g.nodes[t].name}")
    out.append(f"\t.size {n.name}, .-{n.name}")


def _emit_tls(g, n, out):
    out.append(f'\t.section .tdata.{n.name},"awT",@progbits')
    out.append("\t.p2align 3")
    out.append(f"\t.globl {n.name}")
    if n.tls_vis in ("hidden", "protected"):
        out.append(f"\t.{n.tls_vis} {n.name}")
    out.append(f"\t.type {n.name},@object")
    out.append(f"{n.name}:")
    out.append(f"\t.quad 0x{n.marker:x}")
    out.append(f"\t.size {n.name}, 8")


def _emit_setmember(g, n, out):
    out.append(f'\t.section set{n.set},"aw",@progbits')
    out.append("\t.p2align 3")
    out.append(f"{n.name}:")
    out.append(f"\t.quad 0x{n.marker:x}")


def emit(g, workdir):
    """Writes and assembles all objects. Returns the list of object paths (command-line order)."""
    dup_by_obj = {}
    for (i, o) in g.comdat_dups:
        dup_by_obj.setdefault(o, []).append(i)
    paths = []
    for o in range(g.nobj):
        out = [f"# object {o}"]
        for i in g.by_obj[o]:
            n = g.nodes[i]
            if n.kind == "func":
                _emit_func(g, n, out)
            elif n.kind == "data":
                _emit_data(g, n, out)
            elif n.kind == "tls":
                _emit_tls(g, n, out)
            else:
                _emit_setmember(g, n, out)
        for i in dup_by_obj.get(o, []):
            _emit_func(g, g.nodes[i], out, as_comdat_copy=True)
        out.append('\t.section .note.GNU-stack,"",@progbits')
        src = os.path.join(workdir, f"o{o}.s")
        with open(src, "w") as f:
            f.write("\n".join(out) + "\n")
        obj = os.path.join(workdir, f"o{o}.o")
        assemble(src, obj)
        for k, (before, nmem, thin) in enumerate(getattr(g, "dummy_archives", [])):
            if before != o:
                continue
            members = []
            for m in range(nmem):
                ms = os.path.join(workdir, f"unused{k}_{m}.s")
                with open(ms, "w") as f:
                    f.write(f'\t.section .text.unused{k}_{m},"ax",@progbits\n\t.globl unused{k}_{m}\n'
                            f'\t.type unused{k}_{m},@function\nunused{k}_{m}:\n\t.cfi_startproc\n\tret\n'
                            f'\t.cfi_endproc\n\t.size unused{k}_{m}, .-unused{k}_{m}\n'
                            + (f'\t.section set0,"aw",@progbits\n\t.quad 0x7777\n' if g.nsets else "")
                            + '\t.section .note.GNU-stack,"",@progbits\n')
                mo = os.path.join(workdir, f"unused{k}_{m}.o")
                assemble(ms, mo)
                members.append(mo)
            from .common import run_cmd, HarnessError
            apath = os.path.join(workdir, f"libunused{k}.a")
            rc, _o, e = run_cmd(["ar", "rcsT" if thin else "rcs", apath] + members)
            if rc != 0:
                raise HarnessError(f"ar (dummy archive) failed: {e}")
            paths.append(apath)
        paths.append(obj)
        if getattr(g, "term_after", None) == o:
            tsrc = os.path.join(workdir, "term.s")
            with open(tsrc, "w") as f:
                f.write('\t.section .eh_frame,"a",@progbits\n\t.long 0\n'
                        '\t.section .note.GNU-stack,"",@progbits\n')
            tobj = os.path.join(workdir, "term.o")
            assemble(tsrc, tobj)
            paths.append(tobj)
    # runtime object
    out = []
    out.append('\t.section .text._start,"ax",@progbits')
    out.append("\t.globl _start")
    out.append("\t.type _start,@function")
    out.append("_start:")
    out.append("\t.cfi_startproc")
    out.append("\t.cfi_undefined rip")
    out.append("\tandq $-16, %rsp")
    for r in g.roots:
        out.append(f"\tcall {g.nodes[r].name}")
    out.append("\tmovl $1, %eax")
    out.append("\tmovl $1, %edi")
    out.append("\tleaq checksum(%rip), %rsi")
    out.append("\tmovl $8, %edx")
    out.append("\tsyscall")
    out.append("\tmovl $231, %eax")
    out.append("\txorl %edi, %edi")
    out.append("\tsyscall")
    out.append("\t.cfi_endproc")
    out.append("\t.size _start, .-_start")
    if any(getattr(n, "lsda", None) is not None for n in g.nodes):
        for k in range(2):
            out.append(f'\t.section .text.pers_{k},"ax",@progbits')
            out.append(f"\t.globl pers_{k}")
            out.append(f"\t.hidden pers_{k}")
            out.append(f"\t.type pers_{k},@function")
            out.append(f"pers_{k}:")
            out.append("\t.cfi_startproc")
            out.append(f"\tmovl ${k + 1}, %eax")
            out.append("\tret")
            out.append("\t.cfi_endproc")
            out.append(f"\t.size pers_{k}, .-pers_{k}")
    if getattr(g, "tls", None):
        out.append('\t.section .text.__tls_get_addr,"ax",@progbits')
        out.append("\t.globl __tls_get_addr")
        out.append("\t.type __tls_get_addr,@function")
        out.append("__tls_get_addr:")
        out.append("\txorl %eax, %eax")
        out.append("\tret")
        out.append("\t.size __tls_get_addr, .-__tls_get_addr")
    out.append('\t.section .bss.rt,"aw",@nobits')
    out.append("\t.p2align 3")
    out.append("\t.globl checksum")
    out.append("\t.hidden checksum")
    out.append("checksum:\t.zero 8")
    out.append("\t.globl visited")
    out.append("\t.hidden visited")
    out.append(f"visited:\t.zero {len(g.nodes) + 8}")
    out.append('\t.section .note.GNU-stack,"",@progbits')
    src = os.path.join(workdir, "rt.s")
    with open(src, "w") as f:
        f.write("\n".join(out) + "\n")
    obj = os.path.join(workdir, "rt.o")
    assemble(src, obj)
    # libshadow.so: defines names that objects define as hidden, and references exported names
    lib = ['\t.text']
    for i in getattr(g, "shadow_defs", []):
        nm = g.nodes[i].name
        lib += [f"\t.globl {nm}", f"\t.type {nm},@function", f"{nm}:", "\tret",
                f"\t.size {nm}, .-{nm}"]
    lib += ["\t.globl shadow_user", "\t.type shadow_user,@function", "shadow_user:"]
    for i in getattr(g, "shadow_refs", []):
        lib.append(f"\tcall {g.nodes[i].name}@PLT")
    lib += ["\tret", "\t.size shadow_user, .-shadow_user",
            '\t.section .note.GNU-stack,"",@progbits']
    lsrc = os.path.join(workdir, "libshadow.s")
    with open(lsrc, "w") as f:
        f.write("\n".join(lib) + "\n")
    lobj = os.path.join(workdir, "libshadow.o")
    assemble(lsrc, lobj)
    from .common import run_cmd, HarnessError
    rc, o, e = run_cmd(["ld.bfd", "-shared", "-o", os.path.join(workdir, "libshadow.so"), lobj,
                        "-soname=libshadow.so"])
    if rc != 0:
        raise HarnessError(f"ld.bfd -shared (libshadow) failed: {e.decode(errors='replace')[:300]}")
    return [obj] + paths


def link_args(g, objs, out, kind="exe", gc=True):
    args = ["-o", out, "--eh-frame-hdr"]
    if kind == "exe":
        args += ["-static", "--no-dynamic-linker"] if False else ["-static"]
    elif kind == "pie":
        args += ["-pie", "--no-dynamic-linker"]
    elif kind == "shared":
        args += ["-shared"]
    elif kind == "dynexe":
        args += ["--dynamic-linker=/lib64/ld-linux-x86-64.so.2"]
    if gc:
        args.append("--gc-sections")
    else:
        args.append("--no-gc-sections")
    for i in g.undefined_force:
        args.append(f"--undefined={g.nodes[i].name}")
    args += objs
    if kind == "dynexe":
        args.append(os.path.join(os.path.dirname(objs[0]), "libshadow.so"))
    return args
