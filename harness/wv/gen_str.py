"""strgen: objects with mergeable string sections and pointer tables into them, plus the model:
for every pointer slot, the bytes it must point at in the output."""
import os

from .common import assemble

ALPHABET = b"abcdefghijklmnopqrstuvwxyzABCDEFGHIJKLMNOPQRSTUVWXYZ0123456789_-+/.:"


class StrWorkload:
    def __init__(self):
        self.nobj = 0
        self.sections = []   # per object: list of dict(name, strings=[bytes without NUL], unterminated)
        self.pointers = []   # per object: list of (kind, sec_index, str_index, addend)
        self.params = {}
        self.unterminated = False


def _rand_string(rng, pool, big):
    r = rng.random()
    if pool and r < 0.35:
        return rng.choice(pool)
    if pool and r < 0.5:
        # shared suffix of an existing string
        s = rng.choice(pool)
        if len(s) > 1:
            return s[rng.randrange(1, len(s)):]
    if r < 0.55:
        return b""
    n = rng.choice([1, 2, 3, 5, 8, 13, 21, 40, 80, 200])
    if big and rng.random() < 0.05:
        n = rng.choice([700, 3000, 9000])
    return bytes(rng.choice(ALPHABET) for _ in range(n))


def generate(rng, size="small"):
    w = StrWorkload()
    if size == "small":
        nobj = rng.randint(2, 5)
        per_sec = (3, 60)
    elif size == "medium":
        nobj = rng.randint(3, 8)
        per_sec = (20, 400)
    else:
        nobj = rng.randint(4, 10)
        per_sec = (200, 3000)
    w.nobj = nobj
    w.unterminated = rng.random() < 0.08
    w.params = dict(nobj=nobj, size=size, unterminated=w.unterminated)
    pool = []
    for o in range(nobj):
        secs = []
        for k in range(rng.choice([1, 1, 2])):
            strings = []
            for _ in range(rng.randint(*per_sec)):
                s = _rand_string(rng, pool, size != "small")
                strings.append(s)
                if len(pool) < 400:
                    pool.append(s)
            # two flavours of section name, both land in .rodata
            # Flavours: the usual one (merged into .rodata); a custom-named merge section (a second
            # output section that is merged on its own, concurrently); and an 8-aligned string
            # section (wild copies those without merging: alignment > 1).
            flavour = rng.choice(["rodata"] * 7 + ["custom", "custom", "aligned"])
            secs.append({"name": ".rodata.str1.1", "strings": strings, "unterminated": False,
                         "label": f"sec{o}_{k}", "flavour": flavour})
        w.sections.append(secs)
    if w.unterminated:
        o = rng.randrange(nobj)
        w.sections[o][-1]["unterminated"] = True
        if w.sections[o][-1]["flavour"] == "aligned":
            w.sections[o][-1]["flavour"] = "rodata"  # only merged sections are scanned for NULs
    for o in range(nobj):
        ptrs = []
        for _ in range(rng.randint(2, 40)):
            si = rng.randrange(len(w.sections[o]))
            strs = w.sections[o][si]["strings"]
            j = rng.randrange(len(strs))
            kind = rng.choice(["sym", "sym", "sec"])
            addend = 0
            if len(strs[j]) > 0 and rng.random() < 0.4:
                addend = rng.randrange(0, len(strs[j]) + 1)
            ptrs.append((kind, si, j, addend))
        w.pointers.append(ptrs)
    return w


def _quote(b):
    out = []
    for c in b:
        if c in (0x22, 0x5C) or c < 0x20 or c > 0x7E:
            out.append("\\%03o" % c)
        else:
            out.append(chr(c))
    return "".join(out)


def emit(w, workdir):
    objs = []
    for o in range(w.nobj):
        out = []
        # mid-string labels needed for section-symbol references
        mids = {}
        for pi, (kind, si, j, addend) in enumerate(w.pointers[o]):
            if kind == "sec":
                mids.setdefault((si, j), set()).add(addend)
        for si, sec in enumerate(w.sections[o]):
            # Distinct section *instances* with the same name/flags need distinct "unique" ids.
            fl = sec.get("flavour", "rodata")
            secname = {"rodata": ".rodata.str1.1", "custom": "mystrings",
                       "aligned": ".rodata.str1.8"}[fl]
            out.append(f'\t.section {secname},"aMS",@progbits,1,unique,{si + 1}')
            last = len(sec["strings"]) - 1
            for j, s in enumerate(sec["strings"]):
                if fl == "aligned":
                    out.append("\t.p2align 3")
                out.append(f"s{o}_{si}_{j}:")
                cuts = sorted(mids.get((si, j), ()))
                pos = 0
                for c in cuts:
                    if c > pos:
                        out.append(f'\t.ascii "{_quote(s[pos:c])}"')
                        pos = c
                    out.append(f".Lm{o}_{si}_{j}_{c}:")
                tail = s[pos:]
                if sec["unterminated"] and j == last:
                    out.append(f'\t.ascii "{_quote(tail)}x"')
                else:
                    out.append(f'\t.asciz "{_quote(tail)}"')
        out.append(f'\t.section .data.ptrs{o},"aw",@progbits')
        out.append("\t.p2align 3")
        out.append(f"\t.globl ptrs{o}")
        out.append(f"ptrs{o}:")
        for (kind, si, j, addend) in w.pointers[o]:
            if kind == "sym":
                out.append(f"\t.quad s{o}_{si}_{j}+{addend}")
            else:
                # A reference to a .L label with a zero addend is emitted by gas as
                # section symbol + offset, here an offset that may be in the middle of a string.
                out.append(f"\t.quad .Lm{o}_{si}_{j}_{addend}")
        out.append(f"\t.size ptrs{o}, .-ptrs{o}")
        out.append('\t.section .note.GNU-stack,"",@progbits')
        src = os.path.join(workdir, f"s{o}.s")
        with open(src, "w") as f:
            f.write("\n".join(out) + "\n")
        obj = os.path.join(workdir, f"s{o}.o")
        assemble(src, obj)
        objs.append(obj)
    rt = ['\t.section .text._start,"ax",@progbits', "\t.globl _start", "_start:"]
    for o in range(w.nobj):
        rt.append(f"\tleaq ptrs{o}(%rip), %rax")
    rt += ["\tmovl $231, %eax", "\txorl %edi, %edi", "\tsyscall",
           '\t.section .note.GNU-stack,"",@progbits']
    src = os.path.join(workdir, "rt.s")
    with open(src, "w") as f:
        f.write("\n".join(rt) + "\n")
    obj = os.path.join(workdir, "rt.o")
    assemble(src, obj)
    return [obj] + objs


def expected(w, o, ptr):
    (kind, si, j, addend) = ptr
    s = w.sections[o][si]["strings"][j]
    return s[addend:] + b"\0"


def distinct_strings(w, by_output_section=False):
    """Distinct strings (with NUL); with by_output_section a dict output-section-name -> set."""
    out = set()
    by = {}
    for o in range(w.nobj):
        for sec in w.sections[o]:
            name = "mystrings" if sec.get("flavour") == "custom" else ".rodata"
            for s in sec["strings"]:
                out.add(s + b"\0")
                # An aligned string section is not merged but copied like any other section, and
                # like any other section it is garbage-collected when nothing references it: its
                # strings carry no presence obligation (the pointers into it are still checked).
                if sec.get("flavour") != "aligned":
                    by.setdefault(name, set()).add(s + b"\0")
    return by if by_output_section else out


def total_bytes(w):
    return sum(len(s) + 1 for o in range(w.nobj) for sec in w.sections[o] for s in sec["strings"])
