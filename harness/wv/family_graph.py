"""The graph workload family: one generated reference graph linked under many schedules.
Feeds C05 (closure kept), C39 (traversal protocol), C10 (unwind tables), C23 (size accounting)."""
import os
import struct
import subprocess

from . import gen_graph
from . import ehframe
from .common import (EXIT_DEADLOCK, EXIT_INVARIANT, EXIT_STEP_BUDGET, Plan, STRATEGIES,
                     check_sim_health, rm_rf, rng_for, scratch_dir, sim_link)
from .elf import Elf
from .trace import validate_gc_trace

ALLOC_ERR = ("Insufficient", "Allocated too much space", "allocation mismatch",
             "Failed to take", "Unexpected end of")


def describe(job, g, argv, env, plan):
    return {
        "family": "graph", "job": job, "params": g.params, "nodes": len(g.nodes),
        "argv": [a if not a.startswith("/") else os.path.basename(a) for a in argv],
        "env": env, "plan": plan.to_json(),
    }


def draw_config(rng, g, tier):
    kind = rng.choice(["exe", "exe", "dynexe", "dynexe", "shared", "pie"])
    threads = rng.choice([2, 2, 3, 4, 8])
    fpg = rng.choice([None, 1, 1, 2, 3, 8])
    # With the default grouping knobs (at least 150 groups) every file of these small links is a
    # group of its own; real links have many files per group. Lower the group count in more than half
    # of the runs so that groups hold several files (up to files-per-group), including groups that
    # start with a never-loaded archive member.
    experiments = None
    if rng.random() < 0.55:
        experiments = f"_,_,{rng.choice([1, 2, 4])},{rng.choice([1, 2, 4, 16])}"
    # Options that change generated sections (C23's quantifier).
    opts = []
    if kind == "shared" and rng.random() < 0.4:
        opts.append(rng.choice(["-Bsymbolic", "-Bsymbolic-functions"]))
    if kind != "shared" and rng.random() < 0.3:
        opts.append("--export-dynamic")
    if rng.random() < 0.3:
        opts.append("--no-relax")
    if rng.random() < 0.2:
        opts += ["-z", "now"]
    if kind != "exe" and rng.random() < 0.5:
        opts.append(f"--hash-style={rng.choice(['gnu', 'sysv', 'both'])}")
    if kind in ("pie", "shared", "dynexe") and rng.random() < 0.3:
        opts.append(rng.choice(["-z", "--pack-dyn-relocs=relr"]))
        if opts[-1] == "-z":
            opts.append("pack-relative-relocs")
    if rng.random() < 0.3:
        opts.append(f"--build-id={rng.choice(['fast', 'sha1', 'none'])}")
    return kind, threads, fpg, experiments, opts


GRAPH_SITES = ["gc_delay_push", "gc_delay_pop", "gc_activations_dec", "gc_startstop_push",
               "gc_startstop_pop", "gc_slot", "gc_send", "flags_fetch_or", "flags_or_assign",
               "flags_remove", "elf_sym_flags", "res_take", "res_is_taken", "in_load_index"]
STR_SITES = ["sm_reserve_cas", "sm_unreserve", "sm_return_vec", "sm_slot_put", "sm_slot_take",
             "sm_pop_group", "gc_delay_push", "gc_activations_dec"]


def _stall_faults(r, which="graph"):
    """Slow workers: in about a third of the schedules the thread that is running at some step is
    kept off the processor for 50..20000 scheduler steps (one or two such stalls)."""
    x = r.random()
    if x < 0.35:
        return [f"stall@step={r.randint(1, 1500)}@{r.choice([50, 500, 5000, 20000])}"
                for _ in range(r.randint(1, 2))]
    if x < 0.60:
        # Pre-empt *at a hooked operation*: the thread that reaches the n-th occurrence of a protocol
        # step (just before a queue push/pop, a counter decrement, a flag update, a CAS...) is kept
        # off the processor until nobody else can run, i.e. everybody else gets as far as they can
        # inside that window. Most check-then-act bugs need exactly one such pre-emption.
        sites = STR_SITES if which == "str" else GRAPH_SITES
        return [f"stall@site={r.choice(sites)},n={r.choice([1, 1, 2, 3, 5, 8, 13, 30])}@100000000"
                for _ in range(r.randint(1, 2))]
    return []


def run_job(job):
    """job: dict(prop, seed, index, tier, schedules, size, replay=None). Returns a result dict."""
    seed, index = job["seed"], job["index"]
    rng = rng_for("graph", seed, index)
    size = job.get("size") or rng.choice(["small", "small", "medium"])
    g = gen_graph.generate(rng, size, dummy_archives=True)
    workdir = scratch_dir(f"g{index}")
    res = {"violations": [], "counters": {}, "distinct": [], "samples": [], "runs": 0,
           "steps": 0, "switches": 0}
    try:
        objs = gen_graph.emit(g, workdir)
        reach, sets_needed = gen_graph.closure(g)
        checksum = gen_graph.expected_checksum(g)
        sched_rng = rng_for("graph-sched", seed, index)
        only = job.get("only_schedule")
        for s in range(job["schedules"]):
            kind, threads, fpg, experiments, opts = draw_config(sched_rng, g, job["tier"])
            strategy = sched_rng.choice(STRATEGIES)
            pseed = sched_rng.getrandbits(48)
            verify_alloc = sched_rng.random() < 0.1
            faults = _stall_faults(rng_for("graph-stall", seed, index, s))
            if only is not None and s != only:
                continue
            plan = Plan(pseed, strategy, faults=faults, log_level=1)
            if job.get("decisions") is not None:
                dpath = os.path.join(workdir, f"decisions_in_{s}.txt")
                with open(dpath, "w") as fh:
                    fh.write("\n".join(str(x) for x in job["decisions"]) + "\n")
                plan = Plan(pseed, "replay", faults=faults, log_level=1, decisions_in=dpath, base_strategy=strategy)
            out = os.path.join(workdir, f"out{s}")
            argv = gen_graph.link_args(g, objs, out, kind=kind, gc=True)
            argv += [f"--threads={threads}", "--no-fork"] + opts
            if experiments:
                argv.append(f"--wild-experiments={experiments}")
            env = {"WILD_FILES_PER_GROUP": str(fpg) if fpg else None}
            # (The debug verifier cannot handle GOT_TLS_OFFSET entries - "Layout must be present" - so it
            # is not enabled for workloads with TLS variables; see DESIGN.md.)
            if verify_alloc and not g.tls:
                env["WILD_VERIFY_ALLOCATIONS"] = "1"
            r = sim_link(argv, workdir, plan, tag=f"s{s}", env_extra=env)
            check_sim_health(r, f"graph job {index} schedule {s}")
            if job.get("want_decisions"):
                try:
                    with open(r.decisions_path) as fh:
                        res["decisions"] = [int(x) for x in fh.read().split()]
                except FileNotFoundError:
                    res["decisions"] = []
            res["runs"] += 1
            res.setdefault("trace", []).append((s, r.status, r.steps, r.trace_hash))
            res["steps"] += r.steps
            res["switches"] += int(r.summary.get("switches", 0))
            c = res["counters"]
            c[f"kind_{kind}"] = c.get(f"kind_{kind}", 0) + 1
            c[f"threads_{threads}"] = c.get(f"threads_{threads}", 0) + 1
            if faults:
                c["fault_configured_stall"] = c.get("fault_configured_stall", 0) + len(faults)
                c["fault_fired_stall"] = c.get("fault_fired_stall", 0) + \
                    sum(1 for f in r.summary.get("faults_fired", []) if "Stall" in f)
            c[f"strategy_{strategy.split(':')[0]}"] = c.get(f"strategy_{strategy.split(':')[0]}", 0) + 1
            if int(r.summary.get("switches", 0)) > 0:
                res["distinct"].append(f"{index}:{r.trace_hash}")
            desc = describe({k: job[k] for k in ("seed", "index", "tier", "schedules", "size")
                             if k in job} | {"only_schedule": s}, g, argv, env, plan)
            if len(res["samples"]) < 1:
                res["samples"].append(desc)

            def viol(prop, clause, signature, detail):
                res["violations"].append({"prop": prop, "clause": clause, "signature": signature,
                                          "detail": detail, "replay": desc})

            err = r.err_text()
            # ---- termination (C39) ----
            if r.status == EXIT_DEADLOCK:
                viol("C39", "termination", "graph/deadlock", f"deadlock: {err[-400:]}")
                continue
            if r.status == EXIT_STEP_BUDGET:
                viol("C39", "termination", "graph/step-budget", "step budget exceeded (livelock?)")
                continue
            if r.status == EXIT_INVARIANT:
                which = "C39" if "C39" in err else ("C40" if "C40" in err else "C39")
                viol(which, "in-run-invariant", "graph/invariant", err[-400:])
                continue
            # ---- trace validation (C39) ----
            events = r.events()
            problems, probes = validate_gc_trace(events)
            for k, v in probes.items():
                c["probe_" + k] = c.get("probe_" + k, 0) + v
            if problems:
                viol("C39", "trace", "graph/trace", "; ".join(problems[:5]))
            # ---- link must succeed on this valid input (C05/C23) ----
            if r.status != 0:
                if any(m in err for m in ALLOC_ERR):
                    viol("C23", "size-accounting", "graph/alloc-error", err[-400:])
                    viol("C05", "link-failed", "graph/link-failed-alloc",
                         f"status {r.status}: {err[-400:]}")
                else:
                    viol("C05", "link-failed", "graph/link-failed",
                         f"status {r.status}: {err[-400:]}")
                continue
            # ---- closure (C05) ----
            try:
                elf = Elf(out)
            except Exception as e:  # noqa: BLE001
                viol("C05", "output-unreadable", "graph/output-unreadable", str(e))
                continue
            syms = elf.symbols_by_name()
            missing = []
            for i in sorted(reach):
                n = g.nodes[i]
                if n.kind == "tls":
                    continue
                sym = syms.get(n.name)
                if sym is None:
                    missing.append(f"{n.name}(no symbol)")
                    continue
                size = sym.size if sym.size else 64
                data = elf.read_vaddr(sym.value, max(size, 8))
                if data is None or struct.pack("<Q", n.marker) not in data:
                    missing.append(f"{n.name}(marker not at symbol address)")
            if missing:
                viol("C05", "closure", "graph/closure-missing",
                     f"{len(missing)} reachable sections missing: {missing[:6]}")
            if kind in ("exe", "dynexe"):
                try:
                    p = subprocess.run([out], stdout=subprocess.PIPE, stderr=subprocess.PIPE,
                                       timeout=90, env={"LD_LIBRARY_PATH": workdir})
                    got = p.stdout
                    rc = p.returncode
                except subprocess.TimeoutExpired:
                    got, rc = b"", "timeout"
                if rc != 0 or got != struct.pack("<Q", checksum):
                    viol("C05", "behaviour", "graph/checksum",
                         f"program exit {rc}, printed {got.hex()} expected "
                         f"{struct.pack('<Q', checksum).hex()}")
                c["executed"] = c.get("executed", 0) + 1
            # ---- unwind tables (C10) ----
            eh_problems, eh_stats = ehframe.check(elf, g, reach, syms)
            for k, v in eh_stats.items():
                c["eh_" + k] = c.get("eh_" + k, 0) + v
            if eh_problems:
                viol("C10", "eh-frame", "graph/eh-frame", "; ".join(eh_problems[:5]))
            try:
                os.unlink(out)
            except FileNotFoundError:
                pass
    finally:
        if not job.get("keep"):
            rm_rf(workdir)
        else:
            res["workdir"] = workdir
    return res
