"""Shared harness machinery: paths, running the simulated linker, plans, scratch space, the
process pool, evidence and replay files, known findings."""
import hashlib
import json
import multiprocessing
import os
import random
import shutil
import signal
import subprocess
import sys
import time

VERIF = os.path.dirname(os.path.dirname(os.path.dirname(os.path.abspath(__file__))))
REPO = os.environ.get("WILD_REPO", "/repo")
SIM_WILD = os.path.join(VERIF, "target", "debug", "wild")
SCRATCH = os.path.join(VERIF, "scratch")
REPLAYS = os.path.join(VERIF, "replays")
EVIDENCE = os.path.join(VERIF, "evidence")
KNOWN_FINDINGS = os.path.join(VERIF, "known-findings.json")

EXIT_INVARIANT = 97
EXIT_STEP_BUDGET = 98
EXIT_DEADLOCK = 99
EXIT_HARNESS = 96

# "lazy:<p>" = random:<p> with lazy workers (idle pool workers run only when nothing else can): detached
# tasks that nobody waits for are starved until exit.
STRATEGIES = ["rr", "random:20", "random:100", "random:300", "random:700", "pct:2", "pct:5", "lazy:100"]


class HarnessError(Exception):
    """Something is wrong with the machinery (not with wild). Exit status 2."""


def ncpu():
    try:
        return len(os.sched_getaffinity(0))
    except Exception:
        return os.cpu_count() or 1


def worker_index():
    ident = multiprocessing.current_process()._identity
    return (ident[0] - 1) if ident else 0


_CPUS = None


def my_cpu():
    global _CPUS
    if _CPUS is None:
        _CPUS = sorted(os.sched_getaffinity(0))
    return _CPUS[worker_index() % len(_CPUS)]


def scratch_dir(tag):
    d = os.path.join(SCRATCH, f"{tag}-{os.getpid()}-{time.time_ns()}")
    os.makedirs(d, exist_ok=True)
    return d


def rm_rf(path):
    shutil.rmtree(path, ignore_errors=True)


def sha256_file(path):
    h = hashlib.sha256()
    with open(path, "rb") as f:
        for chunk in iter(lambda: f.read(1 << 20), b""):
            h.update(chunk)
    return h.hexdigest()


def run_cmd(argv, cwd=None, env=None, timeout=120, input=None):
    p = subprocess.run(
        argv, cwd=cwd, env=env, stdout=subprocess.PIPE, stderr=subprocess.PIPE, timeout=timeout,
        input=input,
    )
    return p.returncode, p.stdout, p.stderr


def assemble(src_path, obj_path):
    rc, out, err = run_cmd(["as", "--64", "-o", obj_path, src_path])
    if rc != 0:
        raise HarnessError(f"as failed on {src_path}: {err.decode(errors='replace')[:2000]}")


class Plan:
    """A simulation plan: everything that decides one run."""

    def __init__(self, seed, strategy="random:100", faults=(), log_level=1, max_steps=5_000_000,
                 decisions_in=None, hash_seed=None, base_strategy=None):
        self.seed = int(seed)
        # A replay plan must reproduce the candidate sets of the recorded run: carry over whether
        # that run had lazy workers.
        self.lazy = (base_strategy or strategy).startswith("lazy:")
        if strategy.startswith("lazy:"):
            strategy = "random:" + strategy.split(":", 1)[1]
        self.strategy = strategy
        self.faults = list(faults)
        self.log_level = log_level
        self.max_steps = max_steps
        self.decisions_in = decisions_in
        self.hash_seed = hash_seed if hash_seed is not None else (self.seed * 2654435761 + 17) % (1 << 63)

    def to_json(self):
        return {
            "seed": self.seed, "strategy": ("lazy:" + self.strategy.split(":", 1)[1]) if self.lazy and
            self.strategy.startswith("random:") else self.strategy, "lazy": self.lazy,
            "faults": self.faults,
            "log_level": self.log_level, "max_steps": self.max_steps, "hash_seed": self.hash_seed,
        }

    @staticmethod
    def from_json(d):
        return Plan(d["seed"], d.get("strategy", "rr"), d.get("faults", ()), d.get("log_level", 1),
                    d.get("max_steps", 5_000_000), None, d.get("hash_seed"))

    def write(self, path, out_prefix):
        lines = [f"seed={self.seed}", f"strategy={self.strategy}", f"out={out_prefix}",
                 f"log_level={self.log_level}", f"max_steps={self.max_steps}"]
        if self.lazy:
            lines.append("lazy_workers=1")
        if self.decisions_in:
            lines.append(f"decisions_in={self.decisions_in}")
        for f in self.faults:
            lines.append(f"fault={f}")
        with open(path, "w") as fh:
            fh.write("\n".join(lines) + "\n")


class RunResult:
    def __init__(self):
        self.status = None  # exit status of the wild process we started (negative: signal)
        self.stdout = b""
        self.stderr = b""
        self.summary = {}
        self.events_path = None
        self.decisions_path = None
        self.timed_out = False
        self.wall = 0.0

    @property
    def steps(self):
        return int(self.summary.get("steps", 0))

    @property
    def trace_hash(self):
        return self.summary.get("trace_hash", "")

    def sim_result(self):
        return self.summary.get("result", "")

    def err_text(self):
        return strip_ansi(self.stderr.decode(errors="replace"))

    def events(self):
        return read_events(self.events_path)


def strip_ansi(s):
    import re
    return re.sub(r"\x1b\[[0-9;]*m", "", s)


def read_summary(path):
    d = {}
    faults = []
    try:
        with open(path) as f:
            for line in f:
                line = line.rstrip("\n")
                if "=" in line:
                    k, v = line.split("=", 1)
                    if k == "fault_fired":
                        faults.append(v)
                    else:
                        d[k] = v
    except FileNotFoundError:
        pass
    d["faults_fired"] = faults
    return d


def read_events(path):
    """Returns a list of (step, tid, kind, a, b, c)."""
    out = []
    if not path or not os.path.exists(path):
        return out
    with open(path) as f:
        for line in f:
            if not line or line[0] == "#":
                continue
            p = line.split()
            if len(p) != 6:
                continue
            out.append((int(p[0]), int(p[1]), p[2], int(p[3]), int(p[4]), int(p[5])))
    return out


def sim_link(argv, workdir, plan, tag="run", env_extra=None, timeout=300, wild=None, pin=True,
             wait_descendants=True, preexec=None, pass_fds=(), ctl_dir=None, driver=None):
    """Runs the simulated wild with `argv` (arguments after the program name) in `workdir` under
    `plan`. Returns a RunResult. Waits for wild's background (forked) worker too."""
    wild = wild or SIM_WILD
    ctl = ctl_dir or workdir
    out_prefix = os.path.join(ctl, f"{tag}.sim")
    plan_path = os.path.join(ctl, f"{tag}.plan")
    for ext in (".events", ".decisions", ".summary"):
        try:
            os.unlink(out_prefix + ext)
        except FileNotFoundError:
            pass
    plan.write(plan_path, out_prefix)
    env = dict(os.environ)
    env.pop("MAKEFLAGS", None)
    env.pop("MFLAGS", None)
    env.pop("WILD_FILES_PER_GROUP", None)
    env["WILD_SIM_PLAN"] = plan_path
    env["WILD_VERIF_HASH_SEED"] = str(plan.hash_seed)
    env["RAYON_NUM_THREADS"] = "2"
    # Number of CPUs the simulated machine has (rayon's default pool size, used by wild when
    # --threads=1 or no --threads is given): derived from the plan so that it is replayed.
    env["WILD_SIM_DEFAULT_THREADS"] = str([1, 2, 3, 4][plan.seed % 4])
    env["LC_ALL"] = "C"
    # Injected panics must not spend seconds symbolising a backtrace of the debug binary.
    env["RUST_BACKTRACE"] = "0"
    env.pop("RUST_LIB_BACKTRACE", None)
    if env_extra:
        for k, v in env_extra.items():
            if v is None:
                env.pop(k, None)
            else:
                env[k] = v
    cmd = ["setarch", "x86_64", "-R"]
    if pin:
        cmd += ["taskset", "-c", str(my_cpu())]
    cmd += (list(driver) if driver else [wild]) + list(argv)
    r = RunResult()
    t0 = time.time()
    # Liveness pipe: stays open in wild and everything it forks; EOF when all of them are gone.
    live_r, live_w = os.pipe()
    os.set_inheritable(live_w, True)
    fds = tuple(pass_fds) + (live_w,)
    try:
        p = subprocess.Popen(cmd, cwd=workdir, env=env, stdout=subprocess.PIPE,
                             stderr=subprocess.PIPE, pass_fds=fds, preexec_fn=preexec,
                             start_new_session=True)
    finally:
        os.close(live_w)
    try:
        r.stdout, r.stderr = p.communicate(timeout=timeout)
        r.status = p.returncode
    except subprocess.TimeoutExpired:
        r.timed_out = True
        try:
            os.killpg(p.pid, signal.SIGKILL)
        except ProcessLookupError:
            pass
        r.stdout, r.stderr = p.communicate()
        r.status = p.returncode
    if wait_descendants and not r.timed_out:
        # Wait for the forked worker (if any) to finish its shutdown.
        deadline = time.time() + timeout
        os.set_blocking(live_r, False)
        import select
        while True:
            left = deadline - time.time()
            if left <= 0:
                r.timed_out = True
                try:
                    os.killpg(p.pid, signal.SIGKILL)
                except ProcessLookupError:
                    pass
                break
            rl, _, _ = select.select([live_r], [], [], min(left, 1.0))
            if rl:
                try:
                    if os.read(live_r, 1) == b"":
                        break
                except BlockingIOError:
                    pass
    os.close(live_r)
    r.wall = time.time() - t0
    r.summary = read_summary(out_prefix + ".summary")
    r.events_path = out_prefix + ".events"
    r.decisions_path = out_prefix + ".decisions"
    return r


def check_sim_health(r, what):
    """Raises HarnessError for outcomes that indicate a harness problem rather than a wild
    behaviour."""
    if r.status == EXIT_HARNESS or "simrt: harness error" in r.err_text():
        raise HarnessError(f"{what}: simrt harness error: {r.err_text()[:500]}")
    if r.timed_out:
        raise HarnessError(f"{what}: wall-clock timeout")


# ---------------------------------------------------------------------------------------------
# Violations, replay files, known findings
# ---------------------------------------------------------------------------------------------

class Violation:
    def __init__(self, prop, clause, signature, detail, replay):
        self.prop = prop
        self.clause = clause
        self.signature = signature  # string matched against known-findings
        self.detail = detail
        self.replay = replay  # dict that can be re-run

    def to_json(self):
        return {"property": self.prop, "clause": self.clause, "signature": self.signature,
                "detail": self.detail, "replay": self.replay}


def load_known_findings():
    try:
        with open(KNOWN_FINDINGS) as f:
            return json.load(f).get("findings", [])
    except FileNotFoundError:
        return []


def match_known(v, findings):
    for f in findings:
        if f.get("status") != "known":
            continue
        if f.get("property") == v.prop and f.get("signature") == v.signature:
            return f
    return None


def write_replay(v, files_dir=None):
    """Writes the replay file (and a copy of the inputs) and returns its path."""
    blob = json.dumps(v.to_json(), sort_keys=True).encode()
    h = hashlib.sha256(blob).hexdigest()[:16]
    d = os.path.join(REPLAYS, v.prop, h)
    os.makedirs(d, exist_ok=True)
    if files_dir and os.path.isdir(files_dir):
        dst = os.path.join(d, "inputs")
        if not os.path.exists(dst):
            shutil.copytree(files_dir, dst, symlinks=True,
                            ignore=shutil.ignore_patterns("*.sim.events", "out*", "*.plan"))
    path = os.path.join(d, "replay.json")
    with open(path, "w") as f:
        json.dump(v.to_json(), f, indent=1, sort_keys=True)
    return path


# ---------------------------------------------------------------------------------------------
# Pool
# ---------------------------------------------------------------------------------------------

def _init_worker():
    signal.signal(signal.SIGINT, signal.SIG_IGN)


def pool_map(fn, items, procs=None):
    """Ordered parallel map over `items`."""
    procs = procs or int(os.environ.get("VERIF_PROCS", ncpu()))
    if procs <= 1 or len(items) <= 1:
        return [fn(x) for x in items]
    with multiprocessing.Pool(procs, initializer=_init_worker) as pool:
        return pool.map(fn, items, chunksize=1)


def pool_imap(fn, items, procs=None):
    procs = procs or int(os.environ.get("VERIF_PROCS", ncpu()))
    if procs <= 1 or len(items) <= 1:
        for x in items:
            yield fn(x)
        return
    with multiprocessing.Pool(procs, initializer=_init_worker) as pool:
        for r in pool.imap_unordered(fn, items, chunksize=1):
            yield r


# ---------------------------------------------------------------------------------------------
# Evidence
# ---------------------------------------------------------------------------------------------

class Evidence:
    def __init__(self, prop, tier, seed, level):
        self.prop = prop
        self.tier = tier
        self.seed = seed
        self.level = level
        self.t0 = time.time()
        self.evaluations = 0
        self.distinct = set()
        self.rule = ""
        self.samples = []
        self.extra = {}
        self.assumptions = []
        self.violations = 0
        self.counters = {}

    def count(self, key, n=1):
        self.counters[key] = self.counters.get(key, 0) + n

    def merge_counters(self, d):
        for k, v in d.items():
            self.count(k, v)

    def write(self):
        os.makedirs(EVIDENCE, exist_ok=True)
        wall = time.time() - self.t0
        cov = {
            "evaluations": self.evaluations,
            "distinct_nontrivial": len(self.distinct),
            "rule": self.rule,
            "samples": self.samples[:5],
            "counters": dict(sorted(self.counters.items())),
            "runs_per_hour": int(self.evaluations / wall * 3600) if wall > 0 else 0,
        }
        cov.update(self.extra)
        doc = {
            "property_id": self.prop, "tier": self.tier, "seed": self.seed, "level": self.level,
            "coverage": cov, "assumptions": self.assumptions, "wall_s": round(wall, 2),
            "violations": self.violations,
        }
        with open(os.path.join(EVIDENCE, f"{self.prop}.json"), "w") as f:
            json.dump(doc, f, indent=1, sort_keys=True)


def rng_for(*parts):
    """A random.Random derived deterministically from the parts."""
    h = hashlib.sha256("/".join(str(p) for p in parts).encode()).digest()
    return random.Random(int.from_bytes(h[:8], "little"))


def report_and_exit(prop, ev, violations, files_dirs=None):
    """Common tail for checks: classify violations against known findings, print the protocol
    lines, write evidence, and return the exit code."""
    findings = load_known_findings()
    new = []
    known_hit = {}
    for v in violations:
        k = match_known(v, findings)
        if k:
            known_hit.setdefault(k["signature"], (k, v))
        else:
            new.append(v)
    for sig, (k, v) in sorted(known_hit.items()):
        print(f"KNOWN-FINDING: property={prop} {k.get('what', sig)}")
    ev.violations = len(new)
    ev.extra["known_findings_seen"] = sorted(known_hit.keys())
    code = 0
    seen_sigs = set()
    for v in new:
        if v.signature in seen_sigs:
            continue
        seen_sigs.add(v.signature)
        try:
            from . import checks
            v.replay = checks.minimise(v)
        except HarnessError:
            pass
        path = write_replay(v, (files_dirs or {}).get(id(v)))
        print(f"VIOLATION property={prop} replay={path}")
        print(f"  clause={v.clause} signature={v.signature}")
        print(f"  detail={v.detail[:600]}")
        if isinstance(v.replay, dict) and v.replay.get("minimised"):
            print(f"  minimised={v.replay['minimised']}")
        code = 1
    ev.write()
    return code
