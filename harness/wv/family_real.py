"""Compiler-produced programs linked through `gcc -B<dir with ld -> simulated wild>`: glibc hello,
C++ exceptions, TLS, shared library + client. Real link lines (crt files, libc/libstdc++ archives
and linker scripts), real string tables and unwind info. Feeds the schedule-quantified oracles of
C06 (bytes identical across runs of a class), C39/C40 (protocol histories), C23, C10 (structure)."""
import hashlib
import os
import shutil
import subprocess

from . import ehframe
from .common import (EXIT_DEADLOCK, EXIT_INVARIANT, EXIT_STEP_BUDGET, HarnessError, Plan,
                     STRATEGIES, SIM_WILD, check_sim_health, rm_rf, rng_for, run_cmd, scratch_dir,
                     sim_link)
from .elf import Elf
from .family_det import first_diff_section
from .family_graph import ALLOC_ERR
from .trace import validate_gc_trace, validate_sm_trace

HELLO_A = r"""
#include <stdio.h>
#include <stdlib.h>
#include <string.h>
extern int cmp(const void *, const void *);
extern const char *names[];
extern int nnames;
static int ctor_ran;
__attribute__((constructor)) static void init(void) { ctor_ran = 7; }
int main(int argc, char **argv) {
  qsort(names, nnames, sizeof(names[0]), cmp);
  for (int i = 0; i < nnames; i++) printf("%s,", names[i]);
  printf(" ctor=%d len=%d\n", ctor_ran, (int)strlen("a fairly long literal string for merging"));
  return 0;
}
"""
HELLO_B = r"""
#include <string.h>
const char *names[] = {"pear", "apple", "fig", "a fairly long literal string for merging", "kiwi"};
int nnames = 5;
int cmp(const void *a, const void *b) { return strcmp(*(const char **)a, *(const char **)b); }
"""
HELLO_OUT = b"a fairly long literal string for merging,apple,fig,kiwi,pear, ctor=7 len=40\n"

EXC_A = r"""
#include <cstdio>
#include <string>
struct Guard { const char *n; ~Guard() { std::printf("~%s ", n); } };
int thrower(int depth);
static std::string global_s = "static-init-ok";
int main() {
  try { Guard g{"outer"}; thrower(3); } catch (const std::string &s) { std::printf("caught %s ", s.c_str()); }
  std::printf("%s\n", global_s.c_str());
  return 0;
}
"""
EXC_B = r"""
#include <string>
struct Guard2 { int d; ~Guard2() { if (d < 0) __builtin_trap(); } };
int thrower(int depth) {
  Guard2 g{depth};
  if (depth == 0) throw std::string("boom");
  return thrower(depth - 1) + 1;
}
"""
EXC_OUT = b"~outer caught boom static-init-ok\n"

TLS_A = r"""
#include <stdio.h>
__thread int counter = 5;
extern __thread int other;
extern int bump(void);
static __thread char buf[64];
int main(void) { buf[0] = 'x'; counter += bump(); printf("%d %d %c\n", counter, other, buf[0]); return 0; }
"""
TLS_B = r"""
__thread int other = 11;
extern __thread int counter;
int bump(void) { other += counter; return other; }
"""
TLS_OUT = b"21 16 x\n"

LIB_C = r"""
#include <stdio.h>
int calc_state = 3;
__thread int calc_tls = 4;
int calc(int x) { calc_state += x; calc_tls++; return calc_state * 2 + calc_tls; }
const char *calc_name(void) { return "calc-lib"; }
"""
CLIENT_C = r"""
#include <stdio.h>
extern int calc(int);
extern const char *calc_name(void);
extern int calc_state;
int main(void) { int a = calc(4); printf("%s %d %d\n", calc_name(), a, calc_state); return 0; }
"""
CLIENT_OUT = b"calc-lib 19 7\n"

TEMPLATES = {
    "hello": ("gcc", [("a.c", HELLO_A), ("b.c", HELLO_B)], HELLO_OUT),
    "exc": ("g++", [("a.cc", EXC_A), ("b.cc", EXC_B)], EXC_OUT),
    "tls": ("gcc", [("a.c", TLS_A), ("b.c", TLS_B)], TLS_OUT),
    "shlib": ("gcc", [("client.c", CLIENT_C)], CLIENT_OUT),
}
MODES = {
    "static": ["-static"],
    "static-pie": ["-static-pie"],
    "pie": [],
    "no-pie": ["-no-pie"],
}
CLASS_CYCLE = [("hello", "static"), ("exc", "static"), ("tls", "pie"), ("shlib", "pie"),
               ("hello", "pie"), ("exc", "pie"), ("tls", "static"), ("shlib", "no-pie"),
               ("hello", "static-pie"), ("exc", "no-pie"), ("tls", "static-pie"), ("hello", "no-pie")]


def gcc_link(driver, bindir, args, workdir, plan, tag, env_extra, ctl):
    """Runs `driver -B bindir args` under the simulation plan (wild is reached through collect2)."""
    return sim_link(args, workdir, plan, tag=tag, env_extra=env_extra, ctl_dir=ctl,
                    wild=None, driver=[driver, "-B", bindir], timeout=300)


def run_job(job):
    seed, index = job["seed"], job["index"]
    rng = rng_for("real", seed, index)
    root = scratch_dir(f"x{index}")
    d = os.path.join(root, "d")
    ctl = os.path.join(root, "ctl")
    bindir = os.path.join(root, "bin")
    for p in (d, ctl, bindir):
        os.makedirs(p)
    os.symlink(SIM_WILD, os.path.join(bindir, "ld"))
    res = {"violations": [], "counters": {}, "distinct": [], "samples": [], "runs": 0,
           "steps": 0, "switches": 0}
    c = res["counters"]
    try:
        tname, mode = CLASS_CYCLE[index % len(CLASS_CYCLE)]
        driver, sources, expected = TEMPLATES[tname]
        cflags = ["-O1", "-ffunction-sections", "-fdata-sections"]
        if mode in ("pie", "static-pie") or tname == "shlib":
            cflags.append("-fPIE")
        objs = []
        for (name, text) in sources:
            with open(os.path.join(d, name), "w") as f:
                f.write(text)
            obj = name.rsplit(".", 1)[0] + ".o"
            rc, o, e = run_cmd([driver, "-c", name, "-o", obj] + cflags, cwd=d)
            if rc != 0:
                raise HarnessError(f"compile failed: {e.decode(errors='replace')[:300]}")
            objs.append(obj)
        c[f"class_{tname}_{mode}"] = 1
        vr = rng_for("real-var", seed, index)
        ref_hash = None
        ref_variant = None
        only = job.get("only_variants")
        for v in range(job["schedules"]):
            threads = vr.choice([1, 2, 2, 4, 8])
            fpg = vr.choice([None, None, 1, 4])
            exp = vr.choice([None, "_,4096", "2,1024", "8,16384,2,8"])
            strategy = vr.choice(STRATEGIES)
            pseed = vr.getrandbits(48)
            hash_seed = vr.getrandbits(60)
            inplace = vr.choice([None, None, "--update-in-place", "--no-update-in-place"])
            if only is not None and v not in only:
                continue
            plan = Plan(pseed, strategy, log_level=1, hash_seed=hash_seed, max_steps=20_000_000)
            env = {"WILD_FILES_PER_GROUP": str(fpg) if fpg else None}
            wl = [f"--threads={threads}", "--no-fork", "--gc-sections", "--build-id=none"]
            if exp:
                wl.append(f"--wild-experiments={exp}")
            if inplace:
                wl.append(inplace)
            wlarg = []
            for a in wl:
                wlarg += ["-Xlinker", a]
            extra_run_env = {}
            if tname == "shlib":
                with open(os.path.join(d, "lib.c"), "w") as f:
                    f.write(LIB_C)
                rc, o, e = run_cmd(["gcc", "-c", "lib.c", "-o", "lib.o", "-fPIC", "-O1"], cwd=d)
                if rc != 0:
                    raise HarnessError(f"compile lib failed: {e[:200]}")
                r0 = gcc_link("gcc", bindir, ["-shared", "lib.o", "-o", "libcalc.so"] + wlarg, d,
                              Plan(pseed ^ 1, strategy, hash_seed=hash_seed), f"lib{v}", env, ctl)
                check_sim_health(r0, f"real job {index} lib link")
                if r0.status != 0:
                    res["violations"].append(_v("C23" if any(m in r0.err_text() for m in ALLOC_ERR)
                                                else "C06", "link-failed", "real/lib-link-failed",
                                                r0.err_text()[-300:], job, tname, mode, v))
                    continue
                link = objs + ["-L.", "-lcalc", "-o", "out"] + MODES[mode] + wlarg
                extra_run_env = {"LD_LIBRARY_PATH": d}
            else:
                link = objs + ["-o", "out"] + MODES[mode] + wlarg
            r = gcc_link(driver, bindir, link, d, plan, f"v{v}", env, ctl)
            check_sim_health(r, f"real job {index} variant {v}")
            res["runs"] += 1
            res["steps"] += r.steps
            res["switches"] += int(r.summary.get("switches", 0))
            res.setdefault("trace", []).append((v, r.status, r.steps, r.trace_hash))
            if int(r.summary.get("switches", 0)) > 0:
                res["distinct"].append(f"real{index}:{r.trace_hash}")
            c[f"threads_{threads}"] = c.get(f"threads_{threads}", 0) + 1
            desc = {"family": "real", "job": {k: job[k] for k in ("seed", "index", "tier", "schedules")
                                              if k in job} | {"only_variants": [v]},
                    "template": tname, "mode": mode, "variant": v, "link": link, "env": env,
                    "plan": plan.to_json()}
            if not res["samples"]:
                res["samples"].append(desc)

            def viol(prop, clause, sig, detail, d2=None):
                res["violations"].append({"prop": prop, "clause": clause, "signature": sig,
                                          "detail": detail, "replay": d2 or desc})

            err = r.err_text()
            if r.status == 1 and "simrt:" in err and "deadlock" in err:
                viol("C39", "termination", "real/deadlock", err[-300:])
                continue
            if "simrt: step_budget" in err:
                viol("C39", "termination", "real/step-budget", err[-200:])
                continue
            if "simrt: invariant" in err:
                which = "C40" if "C40" in err else "C39"
                viol(which, "in-run-invariant", "real/invariant", err[-300:])
                continue
            events = r.events()
            p1, pr1 = validate_gc_trace(events)
            p2, pr2 = validate_sm_trace(events)
            for k2, v2 in list(pr1.items()) + list(pr2.items()):
                c["probe_" + k2] = c.get("probe_" + k2, 0) + v2
            if p1:
                viol("C39", "trace", "real/gc-trace", "; ".join(p1[:4]))
            if p2:
                viol("C40", "trace", "real/sm-trace", "; ".join(p2[:4]))
            if r.status != 0:
                if any(m in err for m in ALLOC_ERR):
                    viol("C23", "size-accounting", "real/alloc-error", err[-400:])
                else:
                    viol("C06", "outcome-differs", f"real/link-failed/{tname}",
                         f"link failed: {err[-300:]}")
                continue
            out = os.path.join(d, "out")
            try:
                p = subprocess.run([out], stdout=subprocess.PIPE, stderr=subprocess.PIPE,
                                   timeout=90, env=extra_run_env)
                got, rc = p.stdout, p.returncode
            except subprocess.TimeoutExpired:
                got, rc = b"", "timeout"
            c["executed"] = c.get("executed", 0) + 1
            if rc != 0 or got != expected:
                viol("C06", "behaviour", f"real/behaviour/{tname}",
                     f"program exited {rc} and printed {got[:80]!r}, expected {expected[:80]!r}")
            h = hashlib.sha256(open(out, "rb").read()).hexdigest()
            if ref_hash is None:
                ref_hash = h
                ref_variant = v
                shutil.copyfile(out, os.path.join(root, "ref.out"))
            elif h != ref_hash:
                sec, off, nd, where = first_diff_section(os.path.join(root, "ref.out"), out)
                d2 = dict(desc)
                d2["job"] = dict(desc["job"])
                d2["job"]["only_variants"] = [ref_variant, v]
                viol("C06", "bytes-differ", f"real/bytes-differ/{tname}/{sec}",
                     f"variant {v} differs from variant {ref_variant} at {off:#x} in {sec} "
                     f"({nd} bytes {where})", d2)
            try:
                elf = Elf(out)
                probs = ehframe.check_structure(elf)
                c["eh_checked"] = c.get("eh_checked", 0) + 1
                if probs:
                    viol("C10", "eh-frame-structure", "real/eh-frame", "; ".join(probs[:4]))
            except Exception as e:  # noqa: BLE001
                viol("C10", "output-unreadable", "real/output-unreadable", str(e)[:200])
    finally:
        if not job.get("keep"):
            rm_rf(root)
    return res


def _v(prop, clause, sig, detail, job, tname, mode, v):
    return {"prop": prop, "clause": clause, "signature": sig, "detail": detail,
            "replay": {"family": "real",
                       "job": {k: job[k] for k in ("seed", "index", "tier", "schedules") if k in job}
                       | {"only_variants": [v]}, "template": tname, "mode": mode}}
