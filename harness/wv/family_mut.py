"""Input-mutation family (C20): an external actor changes one input file at a chosen instant of
the link (a phase boundary or a scheduler step). If the change lands after wild opened that file
and before it started verifying its inputs, the link must fail."""
import os
import shutil
import time

from .common import (EXIT_DEADLOCK, EXIT_INVARIANT, EXIT_STEP_BUDGET, HarnessError, Plan,
                     STRATEGIES, assemble, check_sim_health, rm_rf, rng_for, run_cmd, scratch_dir,
                     sim_link)

PHASES = ["after_open", "after_symbol_db", "after_resolution", "after_alternatives",
          "after_section_resolution", "after_set_size", "after_layout", "write_start",
          "write_body_done", "write_flushed", "write_unmapped", "after_write", "before_verify"]
ACTIONS = ["rewrite", "append", "replace", "touch", "replace_old", "touch_old"]
OPENED_AS = {}  # file that is mutated -> name under which wild opens it (symbolic links)


def fnv32(s):
    h = 0xcbf29ce484222325
    for b in s.encode():
        h ^= b
        h = (h * 0x100000001b3) & 0xFFFFFFFFFFFFFFFF
    return h & 0xFFFFFFFF


def build(rng, d):
    """Creates inputs in d. Returns (argv_inputs, files: dict name -> role)."""
    files = {}

    def obj(name, body):
        src = os.path.join(d, name + ".s")
        with open(src, "w") as f:
            f.write(body + '\n\t.section .note.GNU-stack,"",@progbits\n')
        assemble(src, os.path.join(d, name + ".o"))
        os.unlink(src)

    def fn(sym, calls=()):
        lines = [f'\t.section .text.{sym},"ax",@progbits', f"\t.globl {sym}", f"{sym}:"]
        for c in calls:
            lines.append(f"\tcall {c}")
        lines.append("\tret")
        return "\n".join(lines)

    obj("main", '\t.section .text._start,"ax",@progbits\n\t.globl _start\n_start:\n'
        "\tcall pa\n\tcall ar1\n\tcall th1\n\tcall sc1\n\tcall lsearch1\n\tcall startlib1\n"
        "\tcall viasym1\n\tcall shfn1@PLT\n\tcall nested1\n\tmovl $231, %eax\n\txorl %edi, %edi\n"
        "\tsyscall")
    files["main.o"] = "object"
    obj("plain", fn("pa"))
    files["plain.o"] = "object"
    obj("am1", fn("ar1", ["ar2"]))
    obj("am2", fn("ar2"))
    obj("am3", fn("ar_unused"))
    rc, o, e = run_cmd(["ar", "rcs", os.path.join(d, "libar.a"), os.path.join(d, "am1.o"),
                        os.path.join(d, "am2.o"), os.path.join(d, "am3.o")])
    if rc != 0:
        raise HarnessError(f"ar: {e}")
    for m in ("am1.o", "am2.o", "am3.o"):
        os.unlink(os.path.join(d, m))
    files["libar.a"] = "archive"
    obj("tm1", fn("th1", ["th2"]))
    obj("tm2", fn("th2"))
    rc, o, e = run_cmd(["ar", "rcsT", "libthin.a", "tm1.o", "tm2.o"], cwd=d)
    if rc != 0:
        raise HarnessError(f"ar T: {e}")
    files["libthin.a"] = "thin-archive-index"
    files["tm1.o"] = "thin-member"
    files["tm2.o"] = "thin-member"
    obj("sm1", fn("sc1"))
    with open(os.path.join(d, "extra.ld"), "w") as f:
        f.write("INPUT(sm1.o)\n")
    files["extra.ld"] = "linker-script"
    files["sm1.o"] = "script-input"
    # An archive found through the library search path, an object inside --start-lib/--end-lib, an
    # object reached through a symbolic link (the link target is what changes), a shared library,
    # and a linker script that pulls in another linker script.
    obj("se1", fn("lsearch1"))
    rc, o, e = run_cmd(["ar", "rcs", "libsearch.a", "se1.o"], cwd=d)
    if rc != 0:
        raise HarnessError(f"ar: {e}")
    os.unlink(os.path.join(d, "se1.o"))
    files["libsearch.a"] = "searched-archive"
    obj("sl1", fn("startlib1"))
    files["sl1.o"] = "start-lib-object"
    obj("real_sym", fn("viasym1"))
    os.symlink("real_sym.o", os.path.join(d, "link_sym.o"))
    files["real_sym.o"] = "symlinked-object"
    OPENED_AS["real_sym.o"] = "link_sym.o"
    obj("shsrc", fn("shfn1"))
    rc, o, e = run_cmd(["ld", "-shared", "-o", "libsh.so", "shsrc.o"], cwd=d)
    if rc != 0:
        raise HarnessError(f"ld -shared: {e}")
    os.unlink(os.path.join(d, "shsrc.o"))
    files["libsh.so"] = "shared-library"
    obj("nm1", fn("nested1"))
    with open(os.path.join(d, "outer.ld"), "w") as f:
        f.write("INPUT(inner.ld)\n")
    with open(os.path.join(d, "inner.ld"), "w") as f:
        f.write("GROUP(nm1.o)\n")
    files["outer.ld"] = "linker-script"
    files["inner.ld"] = "nested-linker-script"
    files["nm1.o"] = "script-input"
    past = time.time() - 5000
    for i, name in enumerate(sorted(files)):
        os.utime(os.path.join(d, name), (past + i, past + i))
    argv = ["main.o", "plain.o", "libar.a", "libthin.a", "extra.ld", "-L.", "-lsearch", "--start-lib",
            "sl1.o", "--end-lib", "link_sym.o", "libsh.so", "outer.ld"]
    return argv, files


def action_cmd(action, name):
    if action == "rewrite":
        # same bytes, same size, new mtime
        return f"cp -p {name} {name}.sv && cat {name}.sv > {name} && rm -f {name}.sv"
    if action == "append":
        return f"printf 'xx' >> {name}"
    if action == "replace":
        return f"cp {name} {name}.nw && mv {name}.nw {name}"
    if action == "replace_old":
        # replaced by a file with an OLDER timestamp (restored from a cache, cp -p, mv of an old build)
        return f"cp {name} {name}.nw && touch -d '2001-02-03 04:05:06' {name}.nw && mv {name}.nw {name}"
    if action == "touch_old":
        return f"touch -d '2001-02-03 04:05:06' {name}"
    return f"touch {name}"


def run_job(job):
    seed, index, tier = job["seed"], job["index"], job["tier"]
    rng = rng_for("mut", seed, index)
    root = scratch_dir(f"m{index}")
    template = os.path.join(root, "template")
    ctl = os.path.join(root, "ctl")
    os.makedirs(template)
    os.makedirs(ctl)
    res = {"violations": [], "counters": {}, "distinct": [], "samples": [], "runs": 0,
           "steps": 0, "switches": 0}
    c = res["counters"]
    try:
        inputs, files = build(rng, template)
        names = sorted(files)
        scenarios = []
        if job.get("scenario"):
            scenarios = [job["scenario"]]
        else:
            base = {"threads": rng.choice([1, 2, 4]), "fork": rng.random() < 0.3}
            for ph in PHASES:
                for _ in range(job["schedules"]):
                    scenarios.append(dict(base, trigger=f"site={ph}", file=rng.choice(names),
                                          action=rng.choice(ACTIONS),
                                          strategy=rng.choice(STRATEGIES),
                                          pseed=rng.getrandbits(48)))
            for _ in range(job["schedules"] * 6):
                scenarios.append(dict(base, trigger=f"step={rng.randint(1, 400)}",
                                      file=rng.choice(names), action=rng.choice(ACTIONS),
                                      strategy=rng.choice(STRATEGIES), pseed=rng.getrandbits(48)))
        n = 0
        for sc in scenarios:
            n += 1
            d = os.path.join(root, f"d{n}")
            shutil.copytree(template, d, symlinks=True)
            # copytree preserves mtimes (copy2)
            cmd = action_cmd(sc["action"], sc["file"])
            plan = Plan(sc["pseed"], sc["strategy"], faults=[f"cmd@{sc['trigger']}@{cmd}"])
            if sc.get("decisions") is not None:
                dpath = os.path.join(ctl, f"decisions_in_{n}.txt")
                with open(dpath, "w") as fh:
                    fh.write("\n".join(str(x) for x in sc["decisions"]) + "\n")
                plan = Plan(sc["pseed"], "replay", faults=[f"cmd@{sc['trigger']}@{cmd}"],
                            decisions_in=dpath, base_strategy=sc["strategy"])
            argv = ["-o", "out"] + inputs + [f"--threads={sc['threads']}"]
            if not sc["fork"]:
                argv.append("--no-fork")
            r = sim_link(argv, d, plan, tag=f"r{n}", ctl_dir=ctl)
            check_sim_health(r, f"mut job {index} scenario {sc}")
            if job.get("want_decisions"):
                try:
                    with open(r.decisions_path) as fh:
                        res["decisions"] = [int(x) for x in fh.read().split()]
                except (FileNotFoundError, ValueError):
                    res["decisions"] = []
            res["runs"] += 1
            res["steps"] += r.steps
            res["switches"] += int(r.summary.get("switches", 0))
            res.setdefault("trace", []).append((res["runs"], r.status, r.steps, r.trace_hash))
            if int(r.summary.get("switches", 0)) > 0:
                res["distinct"].append(f"{index}:{r.trace_hash}:{sc['file']}:{sc['action']}")
            desc = {"family": "mut", "job": {"prop": "C20", "seed": seed, "index": index,
                                              "tier": tier, "schedules": 0, "scenario": sc}}
            if not res["samples"]:
                res["samples"].append(desc)
            role = files[sc["file"]]
            c[f"action_{sc['action']}"] = c.get(f"action_{sc['action']}", 0) + 1
            c[f"role_{role}"] = c.get(f"role_{role}", 0) + 1
            if r.status in (EXIT_DEADLOCK, EXIT_STEP_BUDGET, EXIT_INVARIANT):
                shutil.rmtree(d, ignore_errors=True)
                continue
            events = r.events()
            oname = OPENED_AS.get(sc["file"], sc["file"])
            want = {fnv32(os.path.join(d, oname)), fnv32(oname), fnv32("./" + oname),
                    fnv32(os.path.realpath(os.path.join(d, sc["file"])))}
            t_open = None
            t_verify = None
            t_cmd = None
            for (step, tid, kind, a, b, _c) in events:
                if kind == "in_opened" and a in want and t_open is None:
                    t_open = step
                elif kind == "in_verify_start" and t_verify is None:
                    t_verify = step
                elif kind == "cmd_done":
                    t_cmd = step
                    if a != 0:
                        raise HarnessError(f"mutator command failed ({a}): {cmd}")
            if t_cmd is None:
                c["mutation_not_reached"] = c.get("mutation_not_reached", 0) + 1
                window = "not-fired"
            elif t_open is None:
                window = "never-opened"
            elif t_cmd <= t_open:
                window = "before-open"
            elif t_verify is not None and t_cmd >= t_verify:
                window = "after-verify-start"
            else:
                window = "in-window"
            c[f"window_{window}"] = c.get(f"window_{window}", 0) + 1
            if window == "in-window":
                c[f"inwindow_role_{role}"] = c.get(f"inwindow_role_{role}", 0) + 1
                if r.status == 0:
                    res["violations"].append({
                        "prop": "C20", "clause": "change-not-detected",
                        "signature": f"mut/not-detected/{role}/{sc['action']}",
                        "detail": f"{sc['file']} ({role}) was changed ({sc['action']}) at step {t_cmd}, "
                                  f"after it was opened (step {t_open}) and before verification "
                                  f"started (step {t_verify}), but wild exited 0",
                        "replay": desc})
                elif "changed while we were running" in r.err_text():
                    c["detected"] = c.get("detected", 0) + 1
                else:
                    c["failed_other_error"] = c.get("failed_other_error", 0) + 1
            shutil.rmtree(d, ignore_errors=True)
    finally:
        rm_rf(root)
    return res
