#!/bin/bash
# Usage: tools/confirm_seeded.sh <ID> [--no-suite]
# Confirms a seeded change in a fresh scratch worktree of /repo HEAD (outside /repo and /verif):
#   1. demo passes on the unmodified build, 2. patch applies and builds, 3. demo fails with it,
#   4. the existing test suite gives the baseline result with it.
# Writes seeded/<ID>/confirm.log and prints a one-line verdict. Removes the worktree afterwards.
set -u
ID="$1"; SUITE=1; [ "${2:-}" = "--no-suite" ] && SUITE=0
VERIF="$(cd "$(dirname "$0")/.." && pwd)"
S="$VERIF/seeded/$ID"
WT="/tmp/cf-$ID"
export CARGO_NET_OFFLINE=true CARGO_TARGET_DIR=/tmp/cf-target
LOG="$S/confirm.log"
: > "$LOG"
git -C /repo worktree remove --force "$WT" >/dev/null 2>&1
git -C /repo worktree add --detach "$WT" HEAD >>"$LOG" 2>&1 || { echo "$ID: worktree failed"; exit 2; }
cleanup() { git -C /repo worktree remove --force "$WT" >/dev/null 2>&1; }
trap cleanup EXIT
cd "$WT" || exit 2
echo "== base build ($(git rev-parse --short HEAD))" >>"$LOG"
cargo build --offline -j 8 >>"$LOG" 2>&1 || { echo "$ID: base build failed"; exit 2; }
cp /tmp/cf-target/debug/wild /tmp/cf-wild-base-$ID
echo "== demo on base" >>"$LOG"
( cd "$S" && timeout 1800 bash ./demo.sh /tmp/cf-wild-base-$ID ) >>"$LOG" 2>&1; BASE_RC=$?
echo "base demo rc=$BASE_RC" >>"$LOG"
git apply "$S/patch.diff" >>"$LOG" 2>&1 || { echo "$ID: patch does not apply to HEAD"; echo "VERDICT patch-does-not-apply" >>"$LOG"; exit 1; }
echo "== patched build" >>"$LOG"
cargo build --offline -j 8 >>"$LOG" 2>&1 || { echo "$ID: patched build failed"; echo "VERDICT build-failed" >>"$LOG"; exit 1; }
cp /tmp/cf-target/debug/wild /tmp/cf-wild-mut-$ID
echo "== demo on patched" >>"$LOG"
( cd "$S" && timeout 1800 bash ./demo.sh /tmp/cf-wild-mut-$ID ) >>"$LOG" 2>&1; MUT_RC=$?
echo "patched demo rc=$MUT_RC" >>"$LOG"
SUITE_RES="skipped"
if [ $SUITE = 1 ]; then
  echo "== suite on patched" >>"$LOG"
  cargo nextest run --workspace --no-fail-fast --tool-config-file pb:/w/lib/nextest.toml --profile pb --test-threads 8 --retries 2 --offline --build-jobs 8 > "$S/suite.log" 2>&1
  SUITE_RES="$(grep -E '^ +Summary' "$S/suite.log" | tail -1 | sed 's/^ *//')"
  # tests that failed on their last try (with --retries the final line reads "TRY 3 FAIL")
  grep -E "^ +(TRY 3 )?FAIL" "$S/suite.log" | sed 's/.*) //' | sort -u >>"$LOG"
  echo "suite: $SUITE_RES" >>"$LOG"
  rm -f "$S/suite.log"
fi
rm -f /tmp/cf-wild-base-$ID /tmp/cf-wild-mut-$ID
echo "VERDICT base_demo_rc=$BASE_RC patched_demo_rc=$MUT_RC suite=[$SUITE_RES]" >>"$LOG"
echo "$ID: base_demo_rc=$BASE_RC patched_demo_rc=$MUT_RC suite=[$SUITE_RES]"
