#!/bin/bash
# Usage: tools/try_mutant_iso.sh <seeded-ID> <check-ID> [tier]
# Like try_mutant.sh, but never touches /repo or /verif's build: the patch is applied in a scratch
# worktree of /repo HEAD (/tmp/mt-<ID>), /verif's working tree is copied to /tmp/mv-<ID> (with a copy
# of the build cache), and the check runs there with WILD_REPO pointing at the mutated worktree.
# Safe to use while background runs that rebuild from /repo are in progress. Everything is removed
# afterwards; the log is kept in /verif/scratch/mut_<ID>_<check>.log.
ID="$1"; CHK="$2"; TIER="${3:-quick}"
VERIF="$(cd "$(dirname "$0")/.." && pwd)"
WT="/tmp/mt-$ID-$CHK-$TIER-$$"; VC="/tmp/mv-$ID-$CHK-$TIER-$$"
cleanup() { git -C /repo worktree remove --force "$WT" >/dev/null 2>&1; rm -rf "$WT" "$VC"; }
trap cleanup EXIT
cleanup
git -C /repo worktree add --detach "$WT" HEAD >/dev/null 2>&1 || { echo "worktree failed"; exit 2; }
git -C "$WT" apply "$VERIF/seeded/$ID/patch.diff" || { echo "$ID: patch does not apply"; exit 2; }
mkdir -p "$VC"
rsync -a --exclude /scratch --exclude /replays --exclude /.git --exclude /shadow --exclude /target-real "$VERIF/" "$VC/"
mkdir -p "$VERIF/scratch"
if [ -n "${MUT_CMD:-}" ]; then
  # run an arbitrary command in the scratch copy against the mutated build (for triage)
  ( cd "$VC" && WILD_REPO="$WT" ./checks/build.sh && PYTHONPATH="$VC/harness" PYTHONHASHSEED=0 sh -c "$MUT_CMD" ) > "$VERIF/scratch/mut_${ID}_${CHK}.log" 2>&1; rc=$?
else
( cd "$VC" && WILD_REPO="$WT" ./checks/run.sh "$CHK" "$TIER" ) > "$VERIF/scratch/mut_${ID}_${CHK}.log" 2>&1; rc=$?
fi
echo "mutant $ID vs check $CHK ($TIER): exit=$rc"
grep -E "^VIOLATION|^  clause=|^HARNESS" "$VERIF/scratch/mut_${ID}_${CHK}.log" | cut -c1-200 | head -6
exit 0
