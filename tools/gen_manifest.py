#!/usr/bin/env python3
"""Generates MANIFEST.json from the table below (kept in one place so it stays valid)."""
import json, os, subprocess
VERIF = os.path.dirname(os.path.dirname(os.path.abspath(__file__)))

CLAIMED = {
 # id: (level, technique, text, note)
 "C05": ("exploration", "seeded schedule simulation of the real linker + reachability-closure reference model + executing the output",
         "Generated reference graphs (cycles, section-symbol, GOT, data-pointer, weak, start/stop, COMDAT, retain, init_array, --undefined edges) are linked by the real linker under a seeded scheduler that decides every task interleaving; every section in the model's closure must be present at its symbol's address and the static executable must print the model's checksum.",
         "Interleavings are sequentially consistent at hooked operations and task boundaries; programs are a generated family, not all programs."),
 "C39": ("exploration", "seeded schedule simulation (baton scheduler over real threads) + deadlock detector + in-run invariant + trace validation of the slot protocol",
         "The layout traversal runs under random/PCT/round-robin schedules with 2-8 simulated workers and 1..N files per group; termination is decided by the scheduler's deadlock detector and step budget, lost work by the in-run mailbox invariant and by matching every cross-group send to a handle in the recorded history.",
         "SC interleavings only (Relaxed-ordering reorderings are not explored); sim-rayon models rayon's behaviours."),
 "C10": ("exploration", "seeded schedule simulation + parser for .eh_frame/.eh_frame_hdr checked against the generator's function model",
         "For every simulated link of the graph family the output's .eh_frame_hdr count, ordering, FDE pointers, per-function FDE coverage, CIE personality pointers and FDE LSDA pointers are checked against the retained functions the model predicts.",
         "Unwind info is GAS .cfi output: a plain CIE plus two zPLR CIEs (personality routine + per-function LSDA in .gcc_except_table, whose relocated pointers are checked); C++ programs through gcc -B in the real-program family."),
 "C23": ("exploration", "global invariant over every successful-by-model simulated link (graph, string and archive families) with allocation verification on a sample",
         "No simulated link of a valid generated input may fail with an allocation/size-accounting error, under any explored schedule, thread count or partitioning.",
         "Inputs are generated families; options that change generated sections are sampled, not enumerated."),
}

NA = {
 "C01": "pure function of input bytes/arguments (psABI formula); schedule dimension covered by C06",
 "C02": "pure function of symbol tables and command-line order; schedule dimension covered by C06",
 "C04": "structural predicate over an output that is a function of the input only",
 "C08": "hash-table writers are sequential functions of the sorted symbol list",
 "C09": "pure function of the output's relocation tables; load base is a loader parameter, not a fault or schedule",
 "C11": "thunk placement is a function of layout; no AArch64 execution here; nothing schedule- or fault-dependent beyond C06",
 "C12": "pure function of (relocation type, value); boundary enumeration/SMT territory",
 "C13": "pure bit manipulation over (encoding, value, old word)",
 "C14": "pure function of instruction bytes and relocation; needs instruction emulation over an input space",
 "C15": "glob matching is a pure function of (pattern list, section name)",
 "C16": "expression evaluation is a pure function of the expression tree",
 "C22": "input fuzzing; no schedule, fault or history in it",
 "C24": "shell quoting and file copying are functions of argument strings; replay is a second deterministic run",
 "C25": "function of the set of inputs and options",
 "C27": "equality of two deterministic pipelines over the same objects; input-level differential test",
 "C28": "behavioural equality across option sets; no schedule, fault or history of its own",
 "C29": "pure arithmetic; a proof/SMT obligation",
 "C30": "sequential function of input order",
 "C31": "predicate over the output given the input",
 "C32": "pure function of (version script, symbol set)",
 "C33": "runs single-threaded before resolution; input-level rule",
 "C34": "separate single-threaded tool; pure function of two files",
 "C36": "commutative/associative fold over the inputs' notes; no schedule to depend on",
 "C37": "rule is an input-level comparison against GNU ld; its activation fixpoint is covered by C03/C06",
 "C38": "run-time property of the linked program and the dynamic loader",
}

NOT_YET = {}

def main():
    props = [json.loads(l) for l in open(os.path.join(VERIF, "properties.jsonl"))]
    ids = [p["id"] for p in props]
    extra = os.path.join(VERIF, "tools", "manifest_extra.json")
    claimed = dict(CLAIMED)
    if os.path.exists(extra):
        for k, v in json.load(open(extra)).items():
            claimed[k] = tuple(v)
    checks = []
    for pid in ids:
        if pid not in claimed:
            continue
        level, technique, text, note = claimed[pid]
        checks.append({
            "property_id": pid,
            "quick_cmd": f"./checks/run.sh {pid} quick",
            "thorough_cmd": f"./checks/run.sh {pid} thorough",
            "evidence_file": f"evidence/{pid}.json",
            "replay_cmd_template": "./checks/run.sh replay {path}",
            "engine": "wildsim",
            "level_claimed": {"category": level, "text": text, "design_ref": f"DESIGN.md §4 {pid}"},
            "level_note": note,
            "technique": "deterministic simulation with fault injection: " + technique,
        })
    na = []
    for pid in ids:
        if pid in claimed:
            continue
        reason = NA.get(pid) or NOT_YET.get(pid) or "not claimed in this revision: check not built yet (see DESIGN.md §4)"
        na.append({"property_id": pid, "reason": reason})
    hooks_commits = subprocess.run(["git", "-C", "/repo", "log", "--format=%H %s"], capture_output=True, text=True).stdout.splitlines()
    hook_shas = [l.split()[0] for l in hooks_commits if "verif hooks" in l]
    m = {
        "version": 1,
        "setup_cmd": "./checks/setup.sh",
        "hooks": {
            "guard": "wild_verif",
            "enable": "rustc --cfg wild_verif via /verif/shadow/.cargo/config.toml (shadow workspace generated by tools/gen_shadow.py; compiles /repo's sources against sim-rayon + simrt)",
            "baseline_off_cmd": "cd /repo && cargo nextest run --workspace --no-fail-fast --tool-config-file pb:/w/lib/nextest.toml --profile pb --test-threads 8 --offline",
            "source_commits": hook_shas,
            "add_only": True,
        },
        "engines": [{
            "name": "wildsim",
            "path": "sim/simrt, sim/sim-rayon, tools/gen_shadow.py, harness/wv",
            "serves_properties": sorted(claimed.keys()),
            "kind_free_text": "deterministic simulation with fault injection: the real linker compiled against a seeded baton scheduler (simrt) and a rayon model (sim-rayon); Python harness generates workloads, plans, faults and histories and evaluates oracles over outputs and recorded event logs",
        }],
        "checks": checks,
        "not_applicable": na,
        "notes": "VERIF_SEED (default 1) seeds everything. Exit 0 = held on everything explored; exit 1 + VIOLATION line = violation; exit 2 = harness error. Known genuine defects are listed in known-findings.json.",
    }
    with open(os.path.join(VERIF, "MANIFEST.json"), "w") as f:
        json.dump(m, f, indent=1)
    print("claimed:", sorted(claimed.keys()))

if __name__ == "__main__":
    main()
