#!/usr/bin/env python3
"""Writes the instruction file for a bug-seeding sub-agent: tools/seed_prompts.py <PROP> <SUFFIX> [hint]
-> /tmp/seed-<PROP><SUFFIX>.prompt.txt, worktree /tmp/wt-<PROP><SUFFIX> (created here).
The agent gets the property record only; nothing from /verif."""
import json, subprocess, sys
T = '''You are helping test a verification effort for the open-source project davidlattimore/wild (a fast parallel ELF linker written in Rust). Your job is to act as a "bug seeder": produce ONE realistic code change to wild that BREAKS the semantic property below, while still compiling and passing the project's existing test suite.

## The property (this is all you get; do not look for or read anything under /verif)

```json
{prop}
```

## Where to work

A git worktree of the repository has been created for you at `{wt}` (branch-less checkout of the current HEAD). Work ONLY inside `{wt}`. Never modify, build in, or run git commands that change `/repo`, and never read or write anything under `/verif`. Lines in the source guarded by `#[cfg(wild_verif)]` are inert instrumentation; leave them alone (do not delete or move them) and do not rely on them.

The sandbox has no network. Build with cargo offline, and limit parallelism so other work on this machine is not starved:
- build: `cd {wt} && CARGO_NET_OFFLINE=true cargo build --offline -j 4` (binary at `{wt}/target/debug/wild`)
- full test suite: `cd {wt} && CARGO_NET_OFFLINE=true cargo nextest run --workspace --no-fail-fast --tool-config-file pb:/w/lib/nextest.toml --profile pb --test-threads 4 --retries 1 --offline --build-jobs 4`
  On the unmodified tree 401 tests pass and exactly these 4 fail (they fail for reasons unrelated to you; ignore them): `libwild::tidy_tests::check_sources_format`, `wild-linker::integration_tests::elf/x86_64/pack-relative-relocs/z-pack-relative-relocs`, `wild-linker::integration_tests::elf/x86_64/shared/symbolic-non-weak`, `wild-linker::integration_tests::elf/x86_64/tls-apx-relocs/default`. The machine is shared and may be heavily loaded: a test that times out once and passes on retry is not a failure.
- gcc, clang, GNU as/ld/ar, readelf, objdump, python3 are installed. wild can be used as `gcc -B<dir containing a symlink named ld pointing at target/debug/wild> ...`, or invoked directly like GNU ld (`wild -o out a.o b.o ...`; useful flags: `--threads=N`, `--no-fork`, `--gc-sections`, `-shared`, `-static`).

## What to produce

1. A change to wild's source (not to its tests) that violates the property. Requirements:
   - It still compiles, and the full existing test suite gives the same result as the unmodified tree (the same 401 pass). You must actually run the suite with your change applied and confirm this.
   - It should look like a plausible mistake or "optimisation" a developer could make (a dropped or reordered step, a check-then-act window, a wrong ordering/atomicity assumption, an off-by-one at a boundary that only some partitioning reaches, an early return on a rare path, cleanup skipped on one error path, ...), not sabotage that ordinary use would expose at once.
   - Prefer a change that needs something SPECIFIC to manifest: a particular thread interleaving, a crash/fault/error at a particular point, a multi-step history (e.g. what was on disk before), an unusual-but-valid input or configuration (thread count, partitioning knobs, sizes), or two cooperating sites that each look fine alone. A change that makes every link of every program fail is useless.
   - Keep it small (typically 1-30 lines).
{hint}
2. A demonstration: a script (`demo.sh`, may use python3/C/asm helper files next to it) that exits 0 on the UNMODIFIED tree's binary and exits non-zero with your change, showing the property violated (wrong output bytes / wrong behaviour / hang / leftover file / wrong exit status ...). The script must take the path to the wild binary as its first argument, must work from any current directory (locate helper files relative to the script) and must create its temporary files in a fresh `mktemp -d` directory that it removes at the end. If the violation is schedule-dependent, the demo may loop many times and/or use tricks (many threads, `taskset`, big inputs, stress loops) to make it likely; say how often it triggers. If you truly cannot make a probabilistic demo trigger on real threads, you may add a clearly-marked, demo-only delay (e.g. an env-var-gated `std::thread::sleep`) in a SEPARATE patch `demo_only_delay.diff` that widens the window - the main patch must not contain it.
3. Put the results in `{wt}/SEEDED/`:
   - `patch.diff`: output of `git -C {wt} diff HEAD -- . ':!SEEDED'` with ONLY your source change (apply-able with `git apply` to a clean checkout of HEAD).
   - `demo.sh` (+ helper files).
   - `meta.json`: {{"property": "{pid}", "summary": "...what the change does...", "needs_to_manifest": "...the specific interleaving / fault / history / input needed...", "files_changed": [...], "test_suite": "what you ran and the pass/fail counts", "demo": "how to run it and what it shows with/without the change", "trigger_rate": "..."}}
4. Before finishing: make sure `patch.diff` applies to a clean HEAD (`git -C {wt} stash; git -C {wt} apply --check SEEDED/patch.diff; git -C {wt} stash pop` or similar), and leave the worktree with your change applied and built.

Do not spend effort on anything else (no refactoring, no documentation). If your first idea turns out to be caught by the existing tests, pick another. Finish by replying with a short report: what you changed, why it breaks the property, what it needs to manifest, test-suite result, and demo result.
'''
def main():
    pid, suffix = sys.argv[1], sys.argv[2]
    hint = sys.argv[3] if len(sys.argv) > 3 else ""
    props = {}
    for l in open('/verif/properties.jsonl'):
        p = json.loads(l); props[p['id']] = p
    name = pid + suffix
    wt = f'/tmp/wt-{name}'
    subprocess.run(['git', '-C', '/repo', 'worktree', 'remove', '--force', wt], capture_output=True)
    subprocess.run(['git', '-C', '/repo', 'worktree', 'add', '--detach', wt, 'HEAD'], check=True, capture_output=True)
    h = f"   - Extra guidance for this round: {hint}\n" if hint else ""
    open(f'/tmp/seed-{name}.prompt.txt', 'w').write(T.format(prop=json.dumps(props[pid], indent=1), wt=wt, pid=pid, hint=h))
    print(f'/tmp/seed-{name}.prompt.txt', wt)
main()
