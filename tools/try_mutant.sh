#!/bin/bash
# Usage: tools/try_mutant.sh <seeded-ID> <check-ID> [tier]
# Applies seeded/<ID>/patch.diff to /repo, runs the check, reverts /repo, rebuilds the clean
# simulated binary (so that nothing else ever runs against a stale mutant build).
ID="$1"; CHK="$2"; TIER="${3:-quick}"
VERIF="$(cd "$(dirname "$0")/.." && pwd)"
cd "$VERIF" || exit 2
git -C /repo diff --quiet || { echo "/repo has local changes"; exit 2; }
git -C /repo apply "$VERIF/seeded/$ID/patch.diff" || { echo "patch does not apply"; exit 2; }
cp "evidence/$CHK.json" "scratch/evidence_$CHK.bak" 2>/dev/null
./checks/run.sh "$CHK" "$TIER" > "scratch/mut_${ID}_${CHK}.log" 2>&1; rc=$?
git -C /repo checkout -- .
cp "scratch/evidence_$CHK.bak" "evidence/$CHK.json" 2>/dev/null
./checks/build.sh >/dev/null 2>&1
echo "mutant $ID vs check $CHK ($TIER): exit=$rc"
grep -E "^VIOLATION|^  clause=" "scratch/mut_${ID}_${CHK}.log" | cut -c1-160 | head -4
exit 0
