#!/bin/bash
# Rebuilds the simulated wild (shadow workspace) from /repo's current working tree.
# Serialised with flock so concurrent checks share one incremental build.
set -u
VERIF="$(cd "$(dirname "$0")/.." && pwd)"
export CARGO_NET_OFFLINE=true
mkdir -p "$VERIF/scratch" "$VERIF/target"
exec 9>"$VERIF/scratch/.build.lock"
flock 9
python3 "$VERIF/tools/gen_shadow.py" || { echo "HARNESS-ERROR: gen_shadow failed"; exit 2; }
cd "$VERIF/shadow" || exit 2
if ! cargo build --offline >"$VERIF/scratch/build.log" 2>&1; then
  tail -40 "$VERIF/scratch/build.log"
  echo "HARNESS-ERROR: shadow build failed (see scratch/build.log)"
  exit 2
fi
exit 0
