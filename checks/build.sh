#!/bin/bash
# Rebuilds the simulated wild (shadow workspace) from /repo's current working tree.
# Serialised with flock so concurrent checks share one incremental build.
set -u
VERIF="$(cd "$(dirname "$0")/.." && pwd)"
export CARGO_NET_OFFLINE=true
mkdir -p "$VERIF/scratch" "$VERIF/target"
exec 9>"$VERIF/scratch/.build.lock"
flock 9
python3 "$VERIF/tools/gen_shadow.py" || { echo "HARNESS-ERROR: gen_shadow failed"; exit 2; }
cd "$VERIF/shadow" || exit 2
if ! cargo build --offline >"$VERIF/scratch/build.log" 2>&1; then
  tail -40 "$VERIF/scratch/build.log"
  echo "HARNESS-ERROR: shadow build failed (see scratch/build.log)"
  exit 2
fi
# System-call fault seam (LD_PRELOAD interposer used by the process-level families).
if [ ! -e "$VERIF/target/libsimsys.so" ] || [ "$VERIF/sim/simsys/simsys.c" -nt "$VERIF/target/libsimsys.so" ]; then
  if ! gcc -O2 -fPIC -shared -Wall -fno-delete-null-pointer-checks -o "$VERIF/target/libsimsys.so.tmp" \
       "$VERIF/sim/simsys/simsys.c" -ldl >>"$VERIF/scratch/build.log" 2>&1; then
    tail -20 "$VERIF/scratch/build.log"
    echo "HARNESS-ERROR: building libsimsys.so failed"
    exit 2
  fi
  mv "$VERIF/target/libsimsys.so.tmp" "$VERIF/target/libsimsys.so"
fi
exit 0
