#!/bin/bash
# Run once after a fresh restore, offline: builds the simulator and the simulated wild.
set -u
VERIF="$(cd "$(dirname "$0")/.." && pwd)"
mkdir -p "$VERIF/scratch" "$VERIF/evidence" "$VERIF/replays"
"$VERIF/checks/build.sh" || exit 2
for t in as ar gcc readelf setarch taskset; do
  command -v "$t" >/dev/null || { echo "HARNESS-ERROR: missing tool $t"; exit 2; }
done
echo "setup ok"
