#!/bin/bash
# Runs every registered check (or the IDs given after the tier) at the given tier (default quick);
# prints one line per check.
TIER="${1:-quick}"; shift
IDS="$*"
VERIF="$(cd "$(dirname "$0")/.." && pwd)"
cd "$VERIF" || exit 2
mkdir -p scratch
rc=0
[ -n "$IDS" ] || IDS=$(python3 -c "import json;print(' '.join(c['property_id'] for c in json.load(open('MANIFEST.json'))['checks']))")
for p in $IDS; do
  s=$(date +%s)
  ./checks/run.sh "$p" "$TIER" > "scratch/${TIER}_$p.log" 2>&1; e=$?
  echo "$p exit=$e $(( $(date +%s) - s ))s $(grep -c KNOWN-FINDING scratch/${TIER}_$p.log) known"
  grep -E "^(VIOLATION|HARNESS-ERROR)" "scratch/${TIER}_$p.log" | cut -c1-200
  [ $e -ne 0 ] && rc=1
done
exit $rc
