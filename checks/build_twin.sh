#!/bin/bash
# Builds the production twin of the simulated linker (real rayon, no hooks) into /verif/target-real.
# Used by `checks/run.sh selftest twin` and by the thorough tier of C06 (model validation).
set -u
VERIF="$(cd "$(dirname "$0")/.." && pwd)"
export CARGO_NET_OFFLINE=true
mkdir -p "$VERIF/scratch" "$VERIF/target-real"
exec 8>"$VERIF/scratch/.build_twin.lock"
flock 8
python3 "$VERIF/tools/gen_shadow.py" --real || { echo "HARNESS-ERROR: gen_shadow --real failed"; exit 2; }
cd "$VERIF/shadow-real" || exit 2
if ! cargo build --offline >"$VERIF/scratch/build_twin.log" 2>&1; then
  tail -40 "$VERIF/scratch/build_twin.log"
  echo "HARNESS-ERROR: twin build failed (see scratch/build_twin.log)"
  exit 2
fi
exit 0
