#!/bin/bash
# Usage: checks/run.sh <ID> <quick|thorough>   |   checks/run.sh replay <file>   |   checks/run.sh selftest <what> [tier]
set -u
VERIF="$(cd "$(dirname "$0")/.." && pwd)"
cd "$VERIF" || exit 2
"$VERIF/checks/build.sh" || exit 2
export PYTHONPATH="$VERIF/harness"
export PYTHONHASHSEED=0
export PYTHONDONTWRITEBYTECODE=1
export VERIF_SEED="${VERIF_SEED:-1}"
case "${1:-}" in
  replay)   exec python3 -m wv.main replay "$2" ;;
  selftest) exec python3 -m wv.main selftest "${2:-determinism}" "${3:-quick}" ;;
  *)        exec python3 -m wv.main check "$1" "${2:-${VERIF_TIER:-quick}}" ;;
esac
